#include "common.h"
#include <cstdarg>
#include <fstream>
#include <sstream>
#include <signal.h>
#include <sys/stat.h>
#include <sys/types.h>
#include <sys/wait.h>
#include <sys/time.h>
#include <sys/resource.h>
#include <unistd.h>
#include <fcntl.h>
#include <dirent.h>
#include <errno.h>
#include <time.h>
#include <new>

namespace vf {

Outcome classify(const std::exception& e) {
    Outcome o; o.threw = true; o.what = e.what();
    if (dynamic_cast<const std::ios_base::failure*>(&e)) o.cls = "ios_failure";
    else if (dynamic_cast<const std::range_error*>(&e)) o.cls = "range_error";
    else if (dynamic_cast<const std::overflow_error*>(&e)) o.cls = "overflow_error";
    else if (dynamic_cast<const std::underflow_error*>(&e)) o.cls = "underflow_error";
    else if (dynamic_cast<const std::out_of_range*>(&e)) o.cls = "out_of_range";
    else if (dynamic_cast<const std::invalid_argument*>(&e)) o.cls = "invalid_argument";
    else if (dynamic_cast<const std::length_error*>(&e)) o.cls = "length_error";
    else if (dynamic_cast<const std::domain_error*>(&e)) o.cls = "domain_error";
    else if (dynamic_cast<const std::runtime_error*>(&e)) o.cls = "runtime_error";
    else if (dynamic_cast<const std::logic_error*>(&e)) o.cls = "logic_error";
    else if (dynamic_cast<const std::bad_alloc*>(&e)) o.cls = "bad_alloc";
    else o.cls = "exception";
    return o;
}

std::string bucket(const std::string& c) {
    if (c == "invalid_argument" || c == "out_of_range") return "ValueError";
    if (c == "ios_failure") return "IOError";
    if (c == "range_error" || c == "overflow_error" || c == "underflow_error" || c == "runtime_error") return "RuntimeError";
    if (c == "ok") return "ok";
    return "Other";
}

bool satisfies(const std::string& cls, const std::string& want) {
    if (cls == want) return true;
    if (want == "runtime_error") return cls == "range_error" || cls == "overflow_error" || cls == "underflow_error";  // is-a and same bucket
    return false;
}

void CaseLog::open(const std::string& path) { f = fopen(path.c_str(), "w"); if (!f) { perror(path.c_str()); _exit(99); } }
void CaseLog::line(const char* fmt, ...) {
    if (!f) return;
    va_list ap; va_start(ap, fmt); vfprintf(f, fmt, ap); va_end(ap); fputc('\n', f); fflush(f);
}
void CaseLog::pre(const std::string& op, const std::string& args) { if (f) { fprintf(f, "PRE %s %s\n", op.c_str(), args.c_str()); fflush(f); } }
void CaseLog::ev(const std::string& op, const std::string& args, const Outcome& o) {
    ++nEv;
    if (!f) return;
    fprintf(f, "EV %ld %s %s -> %s", nEv, op.c_str(), args.c_str(), o.threw ? ("throw:" + o.cls).c_str() : "ok");
    if (o.threw && verbose) fprintf(f, " what=%s", o.what.substr(0, 80).c_str());
    fputc('\n', f); fflush(f);
}
void CaseLog::viol(const char* prop, const std::string& key, const std::string& detail) {
    ++nViol;
    if (!f) return;
    std::string d = detail; for (size_t i = 0; i < d.size(); ++i) if (d[i] == '\n') d[i] = ' ';
    if (d.size() > 1500) d = d.substr(0, 1500) + "...";
    if (!overrideKey.empty()) { d = "[" + key + "] " + d; fprintf(f, "VIOL %s %s | after EV %ld | %s\n", prop, overrideKey.c_str(), nEv, d.c_str()); }
    else fprintf(f, "VIOL %s %s | after EV %ld | %s\n", prop, key.c_str(), nEv, d.c_str());
    fflush(f);
}
void CaseLog::obs(const std::string& k, const std::string& v) { if (f) { fprintf(f, "OBS %s %s\n", k.c_str(), v.c_str()); fflush(f); } }
void CaseLog::close() { if (f) fclose(f); f = 0; }

HookState g_hook;
CaseLog* g_budgetLog = 0;
void (*g_hookOverride)(int, unsigned long, unsigned long) = 0;

void hookReset() {
    unsigned long hm = g_hook.hardMult; unsigned long ml = g_hook.maxLoopEntries; unsigned long mr = g_hook.maxReads, mf = g_hook.maxReadsAfterFail, ma = g_hook.maxAllocBytes, ms = g_hook.maxSingleAlloc; bool on = g_hook.budgetOn;
    memset(&g_hook, 0, sizeof g_hook);
    g_hook.hardMult = hm; g_hook.maxLoopEntries = ml; g_hook.maxReads = mr; g_hook.maxReadsAfterFail = mf; g_hook.maxAllocBytes = ma; g_hook.maxSingleAlloc = ms; g_hook.budgetOn = on;
}

static const char* sectionName(int s) {
    switch (s) { case 10: return "header"; case 11: return "parameters"; case 12: return "data"; case 13: return "done";
                 case 20: return "save_header"; case 21: return "save_parameters"; case 22: return "save_data"; case 23: return "save_close"; case 24: return "save_done"; }
    return "none";
}

void budgetStop(const char* which) {
    static bool inStop = false;
    if (inStop) _exit(77);
    if (g_hook.hardMult > 1 && !g_hook.softHit) {
        // soft stop: record it and let the load go on under budgets multiplied by hardMult
        g_hook.softHit = true;
        if (g_budgetLog && g_budgetLog->f) { fprintf(g_budgetLog->f, "BUDGET %s section=%s reads=%lu readsAfterFail=%lu allocBytes=%lu largest=%lu loops=%lu (soft)\n", which, sectionName(g_hook.section), g_hook.reads, g_hook.readsAfterFail, g_hook.allocBytes, g_hook.largestAlloc, g_hook.loopEntries); fflush(g_budgetLog->f); }
        unsigned long m = g_hook.hardMult;
        g_hook.maxReads *= m; g_hook.maxReadsAfterFail *= m * 64; g_hook.maxAllocBytes *= m; g_hook.maxSingleAlloc *= 4; g_hook.maxLoopEntries *= m;
        return;
    }
    inStop = true;
    g_hook.budgetOn = false;
    if (g_budgetLog && g_budgetLog->f) {
        fprintf(g_budgetLog->f, "BUDGET %s section=%s reads=%lu readsAfterFail=%lu allocBytes=%lu largest=%lu\n", which, sectionName(g_hook.section),
                g_hook.reads, g_hook.readsAfterFail, g_hook.allocBytes, g_hook.largestAlloc);
        fflush(g_budgetLog->f);
    }
    _exit(77);
}

std::string readFileBytes(const std::string& path, bool* ok) {
    std::ifstream f(path.c_str(), std::ios::binary);
    if (ok) *ok = (bool)f;
    std::ostringstream o; o << f.rdbuf(); return o.str();
}
bool writeFileBytes(const std::string& path, const std::string& data) {
    std::ofstream f(path.c_str(), std::ios::binary | std::ios::trunc);
    f.write(data.data(), (std::streamsize)data.size()); f.close(); return !f.fail();
}
std::vector<std::string> readLines(const std::string& path) {
    std::vector<std::string> v; std::ifstream f(path.c_str()); std::string l;
    while (std::getline(f, l)) if (!l.empty()) v.push_back(l);
    return v;
}
uint64_t fnv(const std::string& s) { uint64_t x = 1469598103934665603ULL; for (size_t i = 0; i < s.size(); ++i) { x ^= (unsigned char)s[i]; x *= 1099511628211ULL; } return x; }

void rmTree(const std::string& path) {
    DIR* d = opendir(path.c_str());
    if (d) { struct dirent* e; while ((e = readdir(d))) { std::string n = e->d_name; if (n == "." || n == "..") continue; std::string p = path + "/" + n; struct stat sb; if (lstat(p.c_str(), &sb) == 0 && S_ISDIR(sb.st_mode)) rmTree(p); else unlink(p.c_str()); } closedir(d); }
    rmdir(path.c_str());
}

// ---------------- allocation accounting (asan flavour: sanitizer malloc hooks) ----------------
#ifdef VERIF_ASAN
extern "C" int __sanitizer_install_malloc_and_free_hooks(void (*malloc_hook)(const volatile void*, size_t), void (*free_hook)(const volatile void*));
static void mhook(const volatile void*, size_t n) {
    if (!g_hook.budgetOn) return;
    g_hook.allocBytes += n; ++g_hook.allocCount;
    if (n > g_hook.largestAlloc) g_hook.largestAlloc = n;
    if (g_hook.maxSingleAlloc && n > g_hook.maxSingleAlloc) budgetStop("single_alloc");
    if (g_hook.maxAllocBytes && g_hook.allocBytes > g_hook.maxAllocBytes) budgetStop("alloc_bytes");
}
static void fhook(const volatile void*) {}
void installAllocHooks() { static bool done = false; if (!done) { __sanitizer_install_malloc_and_free_hooks(mhook, fhook); done = true; } }
#else
void installAllocHooks() {}
#endif

// ---------------- fork isolation ----------------
static volatile sig_atomic_t g_alarm = 0;
static void onAlarm(int) { g_alarm = 1; }

int runCases(const Opts& o, CaseFn fn) {
    mkdir(o.out.c_str(), 0755);
    char ip[512]; snprintf(ip, sizeof ip, "%s/index_%ld.tsv", o.out.c_str(), o.from);
    FILE* idx = fopen(ip, "w");
    if (!idx) { perror(ip); return 2; }
    struct sigaction sa; memset(&sa, 0, sizeof sa); sa.sa_handler = onAlarm; sigaction(SIGALRM, &sa, 0);
    long nWatchdog = 0, maxWatchdog = o.geti("maxwatchdogs", 6);
    for (long i = o.from; i < o.to; ++i) {
        char lp[512], ep[512];
        if (nWatchdog >= maxWatchdog) { fprintf(idx, "%ld\tskipped_after_watchdogs\t0\n", i); continue; }   // bound the wall time of a run in which everything hangs
        snprintf(lp, sizeof lp, "%s/case_%ld.log", o.out.c_str(), i);
        snprintf(ep, sizeof ep, "%s/case_%ld.err", o.out.c_str(), i);
        if (o.nofork) {
            CaseLog log; log.verbose = o.verbose; log.open(lp); log.line("CASE %ld seed=%llu mode=%s profile=%s", i, (unsigned long long)o.seed, o.mode.c_str(), o.profile.c_str());
            fn(o, i, log); log.line("END ok"); log.close(); fprintf(idx, "%ld\tok\t0\n", i); continue;
        }
        fflush(0);
        struct timespec t0; clock_gettime(CLOCK_MONOTONIC, &t0);
        pid_t pid = fork();
        if (pid < 0) { perror("fork"); fclose(idx); return 2; }
        if (pid == 0) {
            int efd = ::open(ep, O_WRONLY | O_CREAT | O_TRUNC, 0644);
            if (efd >= 0) { dup2(efd, 2); ::close(efd); }
            int nfd = ::open("/dev/null", O_WRONLY);
            if (nfd >= 0) { dup2(nfd, 1); ::close(nfd); }
            CaseLog log; log.verbose = o.verbose; log.open(lp);
            log.line("CASE %ld seed=%llu mode=%s profile=%s", i, (unsigned long long)o.seed, o.mode.c_str(), o.profile.c_str());
            g_budgetLog = &log;
            try { fn(o, i, log); }
            catch (const std::exception& e) { log.line("END harness_exception %s", e.what()); log.close(); _exit(98); }
            catch (...) { log.line("END harness_exception non-std"); log.close(); _exit(98); }
            log.line("END ok");
            log.close();
            _exit(0);
        }
        g_alarm = 0; alarm((unsigned)o.timeout);
        int st = 0; pid_t r;
        bool timedOut = false;
        for (;;) {
            r = waitpid(pid, &st, 0);
            if (r == pid) break;
            if (r < 0 && errno == EINTR) { if (g_alarm) { timedOut = true; kill(pid, SIGKILL); g_alarm = 0; } continue; }
            break;
        }
        alarm(0);
        struct timespec t1; clock_gettime(CLOCK_MONOTONIC, &t1);
        double ms = (t1.tv_sec - t0.tv_sec) * 1e3 + (t1.tv_nsec - t0.tv_nsec) / 1e6;
        std::string status;
        if (timedOut) { status = "watchdog"; ++nWatchdog; }
        else if (WIFEXITED(st)) {
            int c = WEXITSTATUS(st);
            if (c == 0) status = "ok"; else if (c == 77) status = "budget"; else if (c == 98 || c == 99) status = "harness"; else { char b[32]; snprintf(b, sizeof b, "exit:%d", c); status = b; }
        } else if (WIFSIGNALED(st)) { char b[32]; snprintf(b, sizeof b, "signal:%d", WTERMSIG(st)); status = b; }
        else status = "unknown";
        if (status != "ok") { FILE* lf = fopen(lp, "a"); if (lf) { fprintf(lf, "END %s\n", status.c_str()); fclose(lf); } }
        struct stat sb; if (stat(ep, &sb) == 0 && sb.st_size == 0) unlink(ep);
        fprintf(idx, "%ld\t%s\t%.1f\n", i, status.c_str(), ms); fflush(idx);
    }
    fclose(idx);
    return 0;
}

}  // namespace vf

// The hook called by the library under test (guard MELUND_EZC3D_VERIF).
extern "C" void melund_ezc3d_verif_hook(int site, unsigned long a, unsigned long b) {
    using namespace vf;
    if (g_hookOverride) { g_hookOverride(site, a, b); return; }
    if (site >= 0 && site < 32) ++g_hook.sites[site];
    if (site == 1) {
        ++g_hook.reads; g_hook.readBytes += a;
        if (b) ++g_hook.readsAfterFail;
        if (g_hook.budgetOn) {
            if (g_hook.maxReadsAfterFail && g_hook.readsAfterFail > g_hook.maxReadsAfterFail) budgetStop("reads_after_eof");
            if (g_hook.maxReads && g_hook.reads > g_hook.maxReads) budgetStop("reads");
        }
    } else if (site == 2) {
        ++g_hook.loopEntries;
        if (g_hook.budgetOn && g_hook.maxLoopEntries && g_hook.loopEntries > g_hook.maxLoopEntries) budgetStop("loop_iterations");
    } else g_hook.section = site;
}
