// Common infrastructure of the verification driver: PRNG, per-case log, fork isolation, hook state.
#pragma once
#include <cstdint>
#include <cstdio>
#include <cstdlib>
#include <cstring>
#include <string>
#include <vector>
#include <map>
#include <stdexcept>
#include <typeinfo>
#include <ios>

namespace vf {

struct Rng {
    uint64_t s[4];
    static uint64_t splitmix(uint64_t& x) { uint64_t z = (x += 0x9e3779b97f4a7c15ULL); z = (z ^ (z >> 30)) * 0xbf58476d1ce4e5b9ULL; z = (z ^ (z >> 27)) * 0x94d049bb133111ebULL; return z ^ (z >> 31); }
    Rng(uint64_t seed, uint64_t stream) { uint64_t x = seed * 0x100000001b3ULL + stream * 0x9e3779b97f4a7c15ULL + 12345; for (int i = 0; i < 4; ++i) s[i] = splitmix(x); }
    static uint64_t rotl(uint64_t x, int k) { return (x << k) | (x >> (64 - k)); }
    uint64_t next() { uint64_t r = rotl(s[1] * 5, 7) * 9, t = s[1] << 17; s[2] ^= s[0]; s[3] ^= s[1]; s[1] ^= s[2]; s[0] ^= s[3]; s[2] ^= t; s[3] = rotl(s[3], 45); return r; }
    uint64_t below(uint64_t n) { return n ? next() % n : 0; }
    int range(int lo, int hi) { return lo + (int)below((uint64_t)(hi - lo + 1)); }   // inclusive
    bool chance(int pct) { return (int)below(100) < pct; }
    template <class T> const T& pick(const std::vector<T>& v) { return v[below(v.size())]; }
};

// Exception classification: full is-a profile; the "class" reported is the most derived std class.
struct Outcome {
    bool threw;
    std::string cls;      // ok | ios_failure | range_error | out_of_range | invalid_argument | length_error | runtime_error | logic_error | bad_alloc | exception | non-std
    std::string what;
    Outcome() : threw(false), cls("ok") {}
    bool ok() const { return !threw; }
};
Outcome classify(const std::exception& e);
// bucket under binding/ezc3d.i: ValueError(invalid_argument,out_of_range) IOError(ios failure) RuntimeError(other runtime_error) Other
std::string bucket(const std::string& cls);
// does caught class `cls` satisfy a statement naming class `want` ("runtime_error", "invalid_argument", "out_of_range", "range_error", "ios_failure")?
bool satisfies(const std::string& cls, const std::string& want);

#define VF_TRY(outcome, stmt) \
    do { try { stmt; } catch (const std::exception& e__) { outcome = vf::classify(e__); } catch (...) { outcome.threw = true; outcome.cls = "non-std"; } } while (0)

struct CaseLog {
    FILE* f;
    long nEv, nViol;
    bool verbose;
    std::string overrideKey;   // when set, every violation is keyed by this diagnosed state instead of its own key
    CaseLog() : f(0), nEv(0), nViol(0), verbose(false) {}
    void open(const std::string& path);
    void line(const char* fmt, ...) __attribute__((format(printf, 2, 3)));
    void pre(const std::string& op, const std::string& args = "");   // written before a risky call so a crash can be attributed
    void ev(const std::string& op, const std::string& args, const Outcome& o);
    void viol(const char* prop, const std::string& key, const std::string& detail);
    void obs(const std::string& k, const std::string& v);
    void close();
};

struct Opts {
    std::string mode, out, profile, list, flavour;
    uint64_t seed;
    long from, to;
    int maxops;
    int timeout;    // watchdog seconds per case (backstop, inconclusive when it fires)
    bool wild, verbose, dumpFinal, nofork;
    std::map<std::string, std::string> kv;
    Opts() : seed(1), from(0), to(1), maxops(40), timeout(40), wild(false), verbose(false), dumpFinal(false), nofork(false) {}
    std::string get(const std::string& k, const std::string& d = "") const { std::map<std::string, std::string>::const_iterator it = kv.find(k); return it == kv.end() ? d : it->second; }
    long geti(const std::string& k, long d) const { std::map<std::string, std::string>::const_iterator it = kv.find(k); return it == kv.end() ? d : atol(it->second.c_str()); }
};

typedef void (*CaseFn)(const Opts&, long idx, CaseLog&);
// run cases [from,to) each in a forked child; log in out/case_<idx>.log, stderr in out/case_<idx>.err; index in out/index_<from>.tsv
int runCases(const Opts& o, CaseFn fn);

// ---- hook state (see /repo include/ezc3d.h, guard MELUND_EZC3D_VERIF) ----
struct HookState {
    unsigned long reads, readBytes, readsAfterFail, loopEntries, maxLoopEntries, sites[32];
    int section;            // last LOAD/SAVE site seen
    // budgets (0 = off)
    unsigned long maxReads, maxReadsAfterFail;
    unsigned long allocBytes, allocCount, maxAllocBytes, maxSingleAlloc, largestAlloc;
    bool budgetOn;
    unsigned long hardMult;   // 1: stop at the budget; >1: record the budget line, keep running up to hardMult x budget (a crash behind the budget stays visible)
    bool softHit;
};
extern HookState g_hook;
extern void (*g_hookOverride)(int, unsigned long, unsigned long);
void hookReset();
void budgetStop(const char* which);     // _exit(77) after writing a record
extern CaseLog* g_budgetLog;
void installAllocHooks();

std::string readFileBytes(const std::string& path, bool* ok = 0);
bool writeFileBytes(const std::string& path, const std::string& data);
std::vector<std::string> readLines(const std::string& path);
uint64_t fnv(const std::string& s);
void rmTree(const std::string& path);

}  // namespace vf
