// C15: a save that did not reach the disk is reported.  Real OS faults, no mocks:
// RLIMIT_FSIZE = N (SIGXFSZ ignored) makes the kernel accept exactly N bytes, for every N; /dev/full; unopenable targets;
// read-only file / directory with the uid dropped to nobody.
#include "common.h"
#include "snap.h"
#include <memory>
#include <sstream>
#include <signal.h>
#include <sys/resource.h>
#include <sys/stat.h>
#include <sys/wait.h>
#include <sys/sysmacros.h>
#include <unistd.h>
#include <fcntl.h>

namespace vf {

typedef ezc3d::ParametersNS::GroupNS::Parameter Param;

static void fillData(ezc3d::c3d& c, int npts, int nch, int nsub, int nframes) {
    { Param r("RATE"); r.set(std::vector<float>(1, 100.f)); c.parameter("POINT", r); }
    if (nch) { Param a("RATE"); a.set(std::vector<float>(1, 100.f * nsub)); c.parameter("ANALOG", a); }
    for (int i = 0; i < npts; ++i) c.point("M" + std::to_string(i));
    for (int i = 0; i < nch; ++i) c.analog("C" + std::to_string(i));
    for (int f = 0; f < nframes; ++f) {
        ezc3d::DataNS::Frame fr; ezc3d::DataNS::Points3dNS::Points pts;
        for (int i = 0; i < npts; ++i) { ezc3d::DataNS::Points3dNS::Point p; p.name("M" + std::to_string(i)); p.x(f + 0.5f * i); p.y(-1.f * i); p.z(3.25f); p.residual(0.125f); pts.point(p); }
        ezc3d::DataNS::AnalogsNS::Analogs an;
        if (nch) for (int s = 0; s < nsub; ++s) { ezc3d::DataNS::AnalogsNS::SubFrame sf; for (int k = 0; k < nch; ++k) { ezc3d::DataNS::AnalogsNS::Channel ch; ch.name("C" + std::to_string(k)); ch.data(f * 100.f + s + 0.01f * k); sf.channel(ch); } an.subframe(sf); }
        fr.add(pts, an); c.frame(fr);
    }
}

void buildFaultObject(ezc3d::c3d& c, int kind) {
    switch (kind) {
        case 0: break;                                                                   // empty object: header + 1-2 parameter blocks
        case 1: { Param p("NOTE", "a description"); p.set(std::vector<std::string>(3, "some text")); c.parameter("INFO", p); break; }
        case 2: for (int k = 0; k < 6; ++k) { Param p("FILL" + std::to_string(k), std::string(180, 'd')); p.set(std::vector<std::string>(1, std::string(190, 's'))); c.parameter("PAD", p); } break;   // 3+ blocks of parameters
        case 3: fillData(c, 2, 1, 2, 3); break;                                          // data of 120 bytes
        case 4: fillData(c, 20, 4, 5, 60); break;                                        // ~24 kB of data
        case 5: fillData(c, 100, 10, 10, 150); break;                                    // ~300 kB of data
        case 6: fillData(c, 80, 0, 0, 40); break;                                        // many points per frame, no analogs (51 kB)
        case 7: fillData(c, 255, 0, 0, 3); break;                                        // 255 points per frame, 3 frames (12 kB)
        default: { // parameter RECORDS larger than a stream buffer: 200 points with 60-character names (12 kB of labels), a 20 kB float table
            { Param r("RATE"); r.set(std::vector<float>(1, 100.f)); c.parameter("POINT", r); }
            for (int i = 0; i < 200; ++i) c.point("M" + std::to_string(i) + "_" + std::string(54, 'n'));
            { Param t("TABLE", "twenty kilobytes"); std::vector<size_t> dm; dm.push_back(250); dm.push_back(20); t.set(std::vector<float>(5000, 0.75f), dm); c.parameter("BIG", t); }
            ezc3d::DataNS::Frame fr; ezc3d::DataNS::Points3dNS::Points pts; for (int i = 0; i < 200; ++i) { ezc3d::DataNS::Points3dNS::Point p; p.name("M" + std::to_string(i) + "_" + std::string(54, 'n')); p.x(0.5f * i); pts.point(p); } fr.add(pts); c.frame(fr); c.frame(fr);
            break; }
    }
}

static std::string sectionAt(long off, long paramEnd) { return off < 512 ? "header" : off < paramEnd ? "parameters" : "data"; }

// One case = one (kind, slice of the offset list).  --chunks C: case idx = kind * C + slice.
void runFaults(const Opts& o, long idx, CaseLog& log) {
    long chunks = o.geti("chunks", 1); int kind = (int)(idx / chunks); long slice = idx % chunks;
    long stride = o.geti("stride", 61), exhaustiveBelow = o.geti("exhaustive_below", 9000);
    signal(SIGXFSZ, SIG_IGN);
    ezc3d::c3d c; buildFaultObject(c, kind);
    char refp[700], tp[700]; snprintf(refp, sizeof refp, "%s/ref_%ld.c3d", o.out.c_str(), idx); snprintf(tp, sizeof tp, "%s/target_%ld.c3d", o.out.c_str(), idx);
    // every other slice names its destination the short way: a bare file name relative to the working directory (no directory part)
    if (slice % 2 == 1 && chdir(o.out.c_str()) == 0) { snprintf(tp, sizeof tp, "target_%ld.c3d", idx); log.line("CNT dest_named_by_bare_relative_file_name 1"); }
    { Outcome so; VF_TRY(so, c.write(refp)); if (so.threw) { log.viol("C15", "false_refusal/no_fault", "reference save threw " + so.cls); return; } }
    std::string ref = readFileBytes(refp); long full = (long)ref.size();
    long paramBlocks = (unsigned char)ref[512 + 2]; long paramEnd = 512 + 512 * paramBlocks;
    std::vector<long> offs;
    if (full <= exhaustiveBelow) for (long n = 0; n <= full + 2; ++n) offs.push_back(n);
    else { for (long n = 0; n <= paramEnd + 8; ++n) offs.push_back(n);
           for (long b = paramEnd; b <= full; b += 512) for (long d = -2; d <= 2; ++d) if (b + d > paramEnd + 8 && b + d <= full + 2) offs.push_back(b + d);
           for (long n = paramEnd + 9 + (o.seed % stride); n < full; n += stride) offs.push_back(n);
           for (long n = full - 40; n <= full + 2; ++n) if (n > paramEnd + 8) offs.push_back(n); }
    long per = ((long)offs.size() + chunks - 1) / chunks, a = slice * per, b = std::min((long)offs.size(), a + per);
    long threw = 0, returned = 0, bad = 0; std::map<std::string, long> bySection;
    for (long k = a; k < b; ++k) {
        long N = offs[k];
        unlink(tp);
        struct rlimit rl; rl.rlim_cur = (rlim_t)N; rl.rlim_max = RLIM_INFINITY; setrlimit(RLIMIT_FSIZE, &rl);
        Outcome oc; VF_TRY(oc, c.write(tp));
        rl.rlim_cur = RLIM_INFINITY; setrlimit(RLIMIT_FSIZE, &rl);
        bool fails = N < full; std::string sec = sectionAt(N, paramEnd);
        ++bySection[sec + (fails ? ":fault" : ":no_fault")];
        if (oc.threw) {
            ++threw;
            if (!fails) { ++bad; log.viol("C15", "false_refusal/limit_not_reached", "limit " + std::to_string(N) + " >= file size " + std::to_string(full) + " but write threw " + oc.cls); }
            else if (!satisfies(oc.cls, "ios_failure")) { ++bad; log.viol("C15", "wrong_class/" + oc.cls + "/write_failure@" + sec, "limit " + std::to_string(N) + ": threw " + oc.cls + " (" + oc.what + ")"); }
        } else {
            ++returned;
            std::string got = readFileBytes(tp);
            if (got != ref) { ++bad; log.viol("C15", "returned_normally_on_incomplete_write/size_limit@" + sec, "kind " + std::to_string(kind) + ": only " + std::to_string(N) + " of " + std::to_string(full) + " bytes could be written (file on disk has " + std::to_string((unsigned long long)got.size()) + "), write() returned normally"); }
        }
    }
    // after the faulted saves of this slice: a save without fault must reach the disk completely (nothing left over from the failed ones)
    { unlink(tp); Outcome fo; VF_TRY(fo, c.write(tp)); ++bySection["after_faults:no_fault"];
      if (fo.threw) { ++bad; log.viol("C15", "false_refusal/after_faulted_saves", "a save without fault, after " + std::to_string(b - a) + " faulted ones in the same process, threw " + fo.cls + ": " + fo.what); }
      else if (readFileBytes(tp) != ref) { ++bad; log.viol("C15", "returned_normally_on_incomplete_write/after_faulted_saves", "a save without fault, after faulted saves in the same process, returned normally but the file is not the complete save"); } }
    unlink(tp);
    log.line("RES %ld kind=%d size=%ld offsets=%ld exhaustive=%d threw=%ld returned=%ld bad=%ld", idx, kind, full, b - a, full <= exhaustiveBelow ? 1 : 0, threw, returned, bad);
    for (std::map<std::string, long>::iterator it = bySection.begin(); it != bySection.end(); ++it) log.line("CNT fault:%s %ld", it->first.c_str(), it->second);
    if (slice != 0) return;
    // ---- destination faults (once per kind)
    struct T { const char* name; std::string path; bool mustFail; };
    std::string dir = o.out + "/dst_" + std::to_string(idx); mkdir(dir.c_str(), 0755);
    std::vector<T> ts;
    T t1 = {"missing_directory", dir + "/no/such/dir/x.c3d", true}; ts.push_back(t1);
    T t2 = {"path_is_directory", dir, true}; ts.push_back(t2);
    // a PRIVATE full-device node (char 1:7) inside the work directory: a library under test that renames or unlinks its destination
    // must not be able to damage the system's /dev/full (we run as root); falls back to /dev/full when mknod is not permitted
    std::string devfull = dir + "/full_device";
    if (mknod(devfull.c_str(), S_IFCHR | 0666, makedev(1, 7)) != 0) devfull = "/dev/full";
    T t3 = {"dev_full", devfull, true}; ts.push_back(t3);
    T t4 = {"empty_path", "", true}; ts.push_back(t4);
    T t5 = {"plain_new_file", dir + "/ok.c3d", false}; ts.push_back(t5);
    T t6 = {"overwrite_existing_longer_file", dir + "/longer.c3d", false}; ts.push_back(t6);
    writeFileBytes(dir + "/longer.c3d", std::string((size_t)full + 5000, 'x'));
    for (size_t i = 0; i < ts.size(); ++i) {
        Outcome oc; VF_TRY(oc, c.write(ts[i].path));
        log.line("CNT dest:%s:%s 1", ts[i].name, oc.threw ? "threw" : "returned");
        if (ts[i].mustFail && !oc.threw) log.viol("C15", std::string("returned_normally_on_unwritable_destination/") + ts[i].name, "write(\"" + ts[i].path + "\") returned normally");
        else if (ts[i].mustFail && !satisfies(oc.cls, "ios_failure")) log.viol("C15", std::string("wrong_class/") + oc.cls + "/" + ts[i].name, oc.what);
        else if (!ts[i].mustFail && oc.threw) log.viol("C15", std::string("false_refusal/") + ts[i].name, oc.cls + ": " + oc.what);
        else if (!ts[i].mustFail && readFileBytes(ts[i].path) != ref) log.viol("C15", std::string("returned_but_file_differs/") + ts[i].name, "file content differs from the reference save");
    }
    // a save REFUSED half-way (an object beyond the format: more than 255 blocks of parameters; the refusal itself is C17's business) must
    // not disturb the next save, of a good object to another path, in the same process
    { ezc3d::c3d big; for (int k = 0; k < 4; ++k) { Param p("BIG" + std::to_string(k)); std::vector<size_t> dm; dm.push_back(250); dm.push_back(60); p.set(std::vector<float>(15000, 1.5f), dm); big.parameter("BULK", p); }
      Outcome bo; VF_TRY(bo, big.write(dir + "/refused.c3d")); log.line("CNT dest:object_beyond_format:%s 1", bo.threw ? "threw" : "returned");
      std::string ap = dir + "/after_refused.c3d"; Outcome go; VF_TRY(go, c.write(ap)); log.line("CNT dest:save_after_refused_save:%s 1", go.threw ? "threw" : "returned");
      if (go.threw) log.viol("C15", "false_refusal/after_refused_save", go.cls + ": " + go.what);
      else if (readFileBytes(ap) != ref) log.viol("C15", "returned_normally_on_incomplete_write/after_refused_save", "after a refused save of another object, write(\"" + ap + "\") returned normally but that file " + (access(ap.c_str(), F_OK) == 0 ? "differs from the complete save" : "does not exist")); }
    // read-only file and read-only directory: root ignores mode bits, so a child drops to nobody
    std::string rof = dir + "/readonly.c3d", rod = dir + "/rodir"; writeFileBytes(rof, "old"); chmod(rof.c_str(), 0444); mkdir(rod.c_str(), 0555); chmod(dir.c_str(), 0755);
    chmod(o.out.c_str(), 0755);
    fflush(0);
    pid_t pid = fork();
    if (pid == 0) {
        if (setgid(65534) != 0 || setuid(65534) != 0) _exit(50);
        int rc = 0;
        const char* names[2] = {"read_only_file", "read_only_directory"}; std::string paths[2] = {rof, rod + "/x.c3d"};
        for (int i = 0; i < 2; ++i) { Outcome oc; VF_TRY(oc, c.write(paths[i])); if (!oc.threw) rc |= (1 << i); else if (!satisfies(oc.cls, "ios_failure")) rc |= (4 << i); (void)names; }
        _exit(rc);
    }
    int st = 0; waitpid(pid, &st, 0);
    if (WIFEXITED(st) && WEXITSTATUS(st) == 50) log.line("CNT dest:uid_drop_unavailable 1");
    else if (WIFEXITED(st)) { int rc = WEXITSTATUS(st);
        log.line("CNT dest:read_only_file:%s 1", (rc & 1) ? "returned" : "threw"); log.line("CNT dest:read_only_directory:%s 1", (rc & 2) ? "returned" : "threw");
        if (rc & 1) log.viol("C15", "returned_normally_on_unwritable_destination/read_only_file", "as uid nobody");
        if (rc & 2) log.viol("C15", "returned_normally_on_unwritable_destination/read_only_directory", "as uid nobody");
        if (rc & 12) log.viol("C15", "wrong_class/other/read_only", "exception is not an I/O failure"); }
    else log.viol("C15", "crash_in_read_only_child", "child ended abnormally");
    chmod(rof.c_str(), 0644); chmod(rod.c_str(), 0755);
}

// plain single save, for the strace cross-check of the injection itself
void runPlainSave(const Opts& o, long idx, CaseLog& log) {
    ezc3d::c3d c; buildFaultObject(c, (int)o.geti("kind", 3));
    char tp[700]; snprintf(tp, sizeof tp, "%s/plain_%ld.c3d", o.out.c_str(), idx);
    Outcome oc; VF_TRY(oc, c.write(tp));
    log.line("RES %ld %s", idx, oc.threw ? ("threw " + oc.cls).c_str() : "returned");
    printf("PLAINSAVE %s\n", oc.threw ? ("threw " + oc.cls).c_str() : "returned");
}

}  // namespace vf
