// File-level workloads: load-and-dump (C02/C12/C19), load/save generations (C04), save-and-dump helpers (C03).
#include "common.h"
#include "snap.h"
#include <memory>
#include <sstream>
#include <unistd.h>

namespace vf {

static std::string baseName(const std::string& p) { size_t k = p.rfind('/'); return k == std::string::npos ? p : p.substr(k + 1); }

// case idx -> idx-th path of --list; loads it, writes out/snap_<idx>.json (or the exception class)
// "<file>.decoy" (when the corpus generator wrote one): a file of the same shape with other labels and values, loaded and dropped first
static void loadDecoyOf(const std::string& path, CaseLog& log) {
    std::string d = path + ".decoy"; if (access(d.c_str(), R_OK) != 0) return;
    log.pre("load", "decoy"); try { ezc3d::c3d dec(d); log.line("CNT decoy_loaded_first 1"); } catch (const std::exception&) { log.line("CNT decoy_refused 1"); }
}

void runLoadDump(const Opts& o, long idx, CaseLog& log) {
    std::vector<std::string> files = readLines(o.list);
    if (idx < 0 || (size_t)idx >= files.size()) throw std::runtime_error("loaddump: index beyond list");
    const std::string& path = files[idx];
    loadDecoyOf(path, log);
    hookReset();
    std::unique_ptr<ezc3d::c3d> c; Outcome oc;
    log.pre("load", baseName(path));
    VF_TRY(oc, c.reset(new ezc3d::c3d(path)));
    log.ev("load", baseName(path), oc);
    if (oc.threw) { log.line("RES %ld threw %s | %s", idx, oc.cls.c_str(), oc.what.substr(0, 120).c_str()); return; }
    Snap s = take(*c);
    char b[700]; snprintf(b, sizeof b, "%s/snap_%ld.json", o.out.c_str(), idx);
    writeFileBytes(b, toJson(s, true));
    log.line("RES %ld ok reads=%lu shape=%s", idx, g_hook.reads, shapeSig(s).c_str());
    if (o.geti("print", 0)) { Outcome po; log.pre("print"); VF_TRY(po, c->print()); log.ev("print", "", po); }
    if (o.geti("resave", 0)) {
        snprintf(b, sizeof b, "%s/resave_%ld.c3d", o.out.c_str(), idx);
        Outcome so; log.pre("write"); VF_TRY(so, c->write(b)); log.ev("save", "", so);
        if (so.threw) log.line("RESAVE %ld threw %s", idx, so.cls.c_str());
        { Snap after = take(*c); if (after != s) { std::vector<std::string> dd = diff(s, after, 4); std::string all; for (size_t i = 0; i < dd.size(); ++i) all += dd[i] + "; "; log.viol("C14", "save_changed_object", "a loaded object differs after write(): " + all); } }
    }
    log.pre("destroy"); c.reset();
}

// C04: load F -> gen1; save -> f2; load -> gen2; save -> f3; compare gen1/gen2 content and f2/f3 bytes; more generations on request
void runGenerations(const Opts& o, long idx, CaseLog& log) {
    std::vector<std::string> files = readLines(o.list);
    if (idx < 0 || (size_t)idx >= files.size()) throw std::runtime_error("gens: index beyond list");
    const std::string& path = files[idx];
    int gens = (int)o.geti("gens", 2);
    loadDecoyOf(path, log);
    std::unique_ptr<ezc3d::c3d> c; Outcome oc;
    log.pre("load", baseName(path)); VF_TRY(oc, c.reset(new ezc3d::c3d(path))); log.ev("load", baseName(path), oc);
    if (oc.threw) { log.line("RES %ld load_threw %s | %s", idx, oc.cls.c_str(), oc.what.substr(0, 120).c_str()); return; }
    Snap g1 = take(*c);
    { char b[700]; snprintf(b, sizeof b, "%s/gen1_%ld.json", o.out.c_str(), idx); writeFileBytes(b, toJson(g1, true)); }
    Snap prevSnap = g1; std::string prevBytes; bool havePrev = false;
    for (int g = 2; g <= gens + 1; ++g) {
        char fp[700]; snprintf(fp, sizeof fp, "%s/gen%d_%ld.c3d", o.out.c_str(), g, idx);
        if (g >= 3 && idx % 2 == 1) writeFileBytes(fp, std::string(prevBytes.size() + 3000, 'J'));     // the destination of the repeated save already holds a longer file
        Outcome so; log.pre("write"); VF_TRY(so, c->write(fp)); log.ev("save", "gen" + std::to_string(g), so);
        if (so.threw) { log.viol("C04", "save_threw/" + so.cls, so.what); return; }
        { Snap after = take(*c); if (after != prevSnap) log.viol("C14", "save_changed_object", "generation " + std::to_string(g)); }
        std::string bytes = readFileBytes(fp);
        if (havePrev && g >= 3) {
            // saving generation-2 (and later) objects again must give byte-identical output
            if (bytes != prevBytes) { size_t off = 0; while (off < bytes.size() && off < prevBytes.size() && bytes[off] == prevBytes[off]) ++off;
                log.viol("C04", "resave_bytes_differ", "file of generation " + std::to_string(g) + " differs from generation " + std::to_string(g - 1) + " at offset " + std::to_string((unsigned long long)off) + " sizes " + std::to_string((unsigned long long)prevBytes.size()) + "/" + std::to_string((unsigned long long)bytes.size())); }
        }
        prevBytes = bytes; havePrev = true;
        if (g == gens + 1) break;
        std::unique_ptr<ezc3d::c3d> n; Outcome lo; log.pre("load", "gen" + std::to_string(g)); VF_TRY(lo, n.reset(new ezc3d::c3d(fp))); log.ev("load", "gen" + std::to_string(g), lo);
        if (lo.threw) { log.viol("C04", "reload_threw/" + lo.cls, lo.what + " (generation " + std::to_string(g) + ")"); return; }
        Snap gn = take(*n);
        ContentOpts co; std::vector<std::string> d = contentDiff(g1, gn, co, 8);
        if (!d.empty()) { std::string all; for (size_t i = 0; i < d.size(); ++i) all += d[i] + "; ";
            const std::string& k = d[0]; std::string key;
            if (k.find("residual") != std::string::npos) key = "point/residual";
            else if (k.compare(0, 6, "header") == 0) key = "header/" + k.substr(8, k.find(':', 8) == std::string::npos ? std::string::npos : k.find(':', 8) - 8);
            else if (k.compare(0, 5, "frame") == 0) key = "frame";
            else if (k.find("groups.count") != std::string::npos || k.find(":missing") != std::string::npos) key = "group_or_param_lost";
            else if (k.find("strings(") != std::string::npos) key = "param/strings";
            else if (k.find(" dims:") != std::string::npos) key = "param/dims";
            else if (k.find(" type:") != std::string::npos) key = "param/type";
            else if (k.find("ints(") != std::string::npos) key = "param/ints";
            else if (k.find("desc") != std::string::npos) key = "description";
            else key = "other";
            log.viol("C04", "content/" + key, "generation " + std::to_string(g) + " vs generation 1: " + all); }
        { char b[700]; snprintf(b, sizeof b, "%s/gen%d_%ld.json", o.out.c_str(), g, idx); if (g == 2) writeFileBytes(b, toJson(gn, true)); }
        c = std::move(n); prevSnap = gn;
    }
    log.line("RES %ld ok gens=%d shape=%s", idx, gens, shapeSig(g1).c_str());
    log.pre("destroy"); c.reset();
}


// C03 residue sweep: a fixed small object + filler parameters totalling `idx` extra bytes, so that the parameter
// section length steps through every residue modulo 512.  variant=1: the object is saved, loaded and the LOADED object saved.
void runResidue(const Opts& o, long idx, CaseLog& log) {
    typedef ezc3d::ParametersNS::GroupNS::Parameter Param;
    int variant = (int)o.geti("variant", 0);
    ezc3d::c3d c;
    { Param r("RATE"); r.set(std::vector<float>(1, 100.f)); c.parameter("POINT", r); Param a("RATE"); a.set(std::vector<float>(1, 200.f)); c.parameter("ANALOG", a); }
    c.point("M1"); c.point("M2"); c.analog("EMG");
    for (int f = 0; f < (variant == 3 ? 0 : 3); ++f) {      // variant 3: no data section at all (the parameter section is the end of the file)
        ezc3d::DataNS::Frame fr; ezc3d::DataNS::Points3dNS::Points pts;
        for (int i = 0; i < 2; ++i) { ezc3d::DataNS::Points3dNS::Point p; p.name(i ? "M2" : "M1"); p.x(1.1f + f); p.y(2.f * i); p.z(-3.5f); p.residual(0.25f); pts.point(p); }
        ezc3d::DataNS::AnalogsNS::Analogs an;
        for (int s = 0; s < 2; ++s) { ezc3d::DataNS::AnalogsNS::SubFrame sf; ezc3d::DataNS::AnalogsNS::Channel ch; ch.name("EMG"); ch.data(0.5f * s + f); sf.channel(ch); an.subframe(sf); }
        fr.add(pts, an); c.frame(fr);
    }
    long T = idx; const long CAP = 200;
    for (int k = 0; k < 8; ++k) {
        long sl = T > CAP ? CAP : T; T -= sl; long dl = T > CAP ? CAP : T; T -= dl;
        Param p("FILL" + std::to_string(k), std::string((size_t)dl, 'd'));
        p.set(std::vector<std::string>(1, std::string((size_t)sl, 's')));
        c.parameter("PAD", p);
    }
    char fp[700]; snprintf(fp, sizeof fp, "%s/res_%ld.c3d", o.out.c_str(), idx);
    Outcome so; log.pre("write"); VF_TRY(so, c.write(fp)); log.ev("save", "filler=" + std::to_string(idx), so);
    if (so.threw) { log.line("RES %ld save_threw %s", idx, so.cls.c_str()); return; }
    Snap s = take(c);
    if (variant == 2) {   // C01 on every padding residue: what was saved must load back with the same content
        std::unique_ptr<ezc3d::c3d> l; Outcome lo; log.pre("load"); VF_TRY(lo, l.reset(new ezc3d::c3d(fp))); log.ev("load", "", lo);
        if (lo.threw) log.viol("C01", "reload_threw/" + lo.cls, "filler=" + std::to_string(idx) + ": " + lo.what);
        else { std::vector<std::string> d = contentDiff(s, take(*l), ContentOpts(), 6); if (!d.empty()) { std::string all; for (size_t i = 0; i < d.size(); ++i) all += d[i] + "; "; log.viol("C01", "content/residue_sweep", "filler=" + std::to_string(idx) + ": " + all); } }
        log.line("RES %ld ok", idx); unlink(fp); return;
    }
    if (variant == 1) {
        std::unique_ptr<ezc3d::c3d> l; Outcome lo; log.pre("load"); VF_TRY(lo, l.reset(new ezc3d::c3d(fp))); log.ev("load", "", lo);
        if (lo.threw) { log.line("RES %ld reload_threw %s", idx, lo.cls.c_str()); return; }
        Outcome s2; log.pre("write"); VF_TRY(s2, l->write(fp)); log.ev("save_loaded", "", s2);
        if (s2.threw) { log.line("RES %ld save_threw %s", idx, s2.cls.c_str()); return; }
        s = take(*l);
    }
    snprintf(fp, sizeof fp, "%s/res_%ld.json", o.out.c_str(), idx);
    writeFileBytes(fp, toJson(s, true));
    log.line("RES %ld ok", idx);
}


// C12, API direction: every int16 value / float pattern handed over through set() and frames -> save -> bytes (checked in Python) -> load (checked here)
void runC12Api(const Opts& o, long idx, CaseLog& log) {
    typedef ezc3d::ParametersNS::GroupNS::Parameter Param;
    ezc3d::c3d c;
    { Param r("RATE"); r.set(std::vector<float>(1, 100.f)); c.parameter("POINT", r); }
    std::vector<int> iv; std::vector<float> fv; std::vector<uint32_t> fb;
    if (idx < 4) { for (int v = 0; v < 16384; ++v) iv.push_back(-32768 + (int)idx * 16384 + v); Param p("INTS"); p.set(iv, std::vector<size_t>(2, 128)); c.parameter("C12", p); }
    else {
        for (uint32_t sgn = 0; sgn < 2; ++sgn) for (uint32_t e = 0; e < 256; ++e) { uint32_t ms[4] = {0u, 1u, 1u << 22, (1u << 23) - 1}; for (int k = 0; k < 4; ++k) fb.push_back((sgn << 31) | (e << 23) | ms[k]); }
        for (size_t i = 0; i < fb.size(); ++i) fv.push_back(bitsf(fb[i]));
        std::vector<size_t> d; d.push_back(64); d.push_back(32);
        Param p("FLOATS"); p.set(fv, d); c.parameter("C12", p);
        { Param a("RATE"); a.set(std::vector<float>(1, 100.f)); c.parameter("ANALOG", a); }
        for (int i = 0; i < 128; ++i) c.point("Q" + std::to_string(i));
        for (int i = 0; i < 128; ++i) c.analog("K" + std::to_string(i));
        for (int f = 0; f < 4; ++f) { ezc3d::DataNS::Frame fr; ezc3d::DataNS::Points3dNS::Points pts;
            for (int i = 0; i < 128; ++i) { ezc3d::DataNS::Points3dNS::Point pt; pt.name("Q" + std::to_string(i)); size_t b = (size_t)f * 512 + (size_t)i * 4; pt.x(fv[b + (size_t)((0 + f) % 4)]); pt.y(fv[b + (size_t)((1 + f) % 4)]); pt.z(fv[b + (size_t)((2 + f) % 4)]); pt.residual(fv[b + (size_t)((3 + f) % 4)]); pts.point(pt); }   // frame f rotates the components
            ezc3d::DataNS::AnalogsNS::Analogs an; ezc3d::DataNS::AnalogsNS::SubFrame sf;
            for (int i = 0; i < 128; ++i) { ezc3d::DataNS::AnalogsNS::Channel ch; ch.name("K" + std::to_string(i)); ch.data(fv[(size_t)f * 512 + (size_t)i * 4]); sf.channel(ch); }   // every 4th pattern of this frame's 512
            an.subframe(sf); fr.add(pts, an); c.frame(fr); }
        // a second pass so that every pattern is also an analog sample: 12 more frames carry the remaining 3 of every 4 patterns
        for (int f = 0; f < 12; ++f) { ezc3d::DataNS::Frame fr; ezc3d::DataNS::Points3dNS::Points pts; for (int i = 0; i < 128; ++i) { ezc3d::DataNS::Points3dNS::Point pt; pt.name("Q" + std::to_string(i)); pts.point(pt); }
            ezc3d::DataNS::AnalogsNS::Analogs an; ezc3d::DataNS::AnalogsNS::SubFrame sf;
            for (int i = 0; i < 128; ++i) { ezc3d::DataNS::AnalogsNS::Channel ch; ch.name("K" + std::to_string(i)); ch.data(fv[(size_t)(f / 3) * 512 + (size_t)i * 4 + 1 + (size_t)(f % 3)]); sf.channel(ch); }
            an.subframe(sf); fr.add(pts, an); c.frame(fr); }
    }
    char fp[700]; snprintf(fp, sizeof fp, "%s/api_%ld.c3d", o.out.c_str(), idx);
    Outcome so; log.pre("write"); VF_TRY(so, c.write(fp)); log.ev("save", "", so);
    if (so.threw) { log.viol("C12", "api/save_threw/" + so.cls, so.what); return; }
    std::unique_ptr<ezc3d::c3d> l; Outcome lo; log.pre("load"); VF_TRY(lo, l.reset(new ezc3d::c3d(fp))); log.ev("load", "", lo);
    if (lo.threw) { log.viol("C12", "api/reload_threw/" + lo.cls, lo.what); return; }
    long bad = 0, checked = 0;
    if (idx < 4) { const std::vector<int>& got = l->parameters().group("C12").parameter("INTS").valuesAsInt(); checked = (long)got.size();
        if (got.size() != iv.size()) bad = -1; else for (size_t i = 0; i < iv.size(); ++i) if (got[i] != iv[i]) { if (!bad) log.viol("C12", "api/int_value", "set " + std::to_string(iv[i]) + " loaded " + std::to_string(got[i])); ++bad; } }
    else { const std::vector<float>& got = l->parameters().group("C12").parameter("FLOATS").valuesAsFloat(); checked = (long)got.size();
        if (got.size() != fv.size()) bad = -1; else for (size_t i = 0; i < fv.size(); ++i) if (fbits(got[i]) != fb[i]) { if (!bad) { char t[64]; snprintf(t, sizeof t, "%08x -> %08x", fb[i], fbits(got[i])); log.viol("C12", "api/float_param_pattern", t); } ++bad; }
        for (int f = 0; f < 4; ++f) for (int i = 0; i < 128; ++i) { const ezc3d::DataNS::Points3dNS::Point& pt = l->data().frame((size_t)f).points().point((size_t)i); size_t b = (size_t)f * 512 + (size_t)i * 4; uint32_t g[4] = {fbits(pt.x()), fbits(pt.y()), fbits(pt.z()), fbits(pt.residual())};
            { uint32_t av = fbits(l->data().frame((size_t)f).analogs().subframe(0).channel((size_t)i).data()); ++checked; if (av != fb[b]) { if (!bad) { char t[64]; snprintf(t, sizeof t, "%08x -> %08x", fb[b], av); log.viol("C12", "api/analog_float_pattern", t); } ++bad; } }
            for (int k = 0; k < 4; ++k) { ++checked; if (g[k] != fb[b + (size_t)((k + f) % 4)]) { if (!bad) { char t[64]; snprintf(t, sizeof t, "%08x -> %08x (component %d)", fb[b + (size_t)((k + f) % 4)], g[k], k); log.viol("C12", "api/point_float_pattern", t); } ++bad; } } } }
    if (idx >= 4 && bad >= 0) for (int f = 0; f < 12; ++f) for (int i = 0; i < 128; ++i) { uint32_t want = fb[(size_t)(f / 3) * 512 + (size_t)i * 4 + 1 + (size_t)(f % 3)], av = fbits(l->data().frame((size_t)(4 + f)).analogs().subframe(0).channel((size_t)i).data()); ++checked;
        if (av != want) { if (!bad) { char t[64]; snprintf(t, sizeof t, "%08x -> %08x", want, av); log.viol("C12", "api/analog_float_pattern", t); } ++bad; } }
    if (bad == -1) log.viol("C12", "api/value_count", "number of values changed");
    log.line("RES %ld ok checked=%ld bad=%ld", idx, checked, bad);
}


// C16: load a damaged file under logical budgets.  --list lines: <base path>|<mutation>, mutation = none | trunc=N | set=off:val,off:val... | zero=N (all-zero file of N bytes)
void runDamage(const Opts& o, long idx, CaseLog& log) {
    std::vector<std::string> specs = readLines(o.list);
    if (idx < 0 || (size_t)idx >= specs.size()) throw std::runtime_error("damage: index beyond list");
    const std::string& spec = specs[idx];
    size_t bar = spec.find('|'); std::string base = spec.substr(0, bar), mut = bar == std::string::npos ? "none" : spec.substr(bar + 1);
    std::string bytes = readFileBytes(base);
    if (mut.compare(0, 6, "trunc=") == 0) { size_t n = (size_t)atol(mut.c_str() + 6); if (n < bytes.size()) bytes.resize(n); }
    else if (mut.compare(0, 5, "zero=") == 0) { bytes.assign((size_t)atol(mut.c_str() + 5), '\0'); }
    else if (mut.compare(0, 4, "set=") == 0) { const char* p = mut.c_str() + 4; while (*p) { char* e; long off = strtol(p, &e, 10); if (*e != ':') break; long val = strtol(e + 1, &e, 10); if (off >= 0 && (size_t)off < bytes.size()) bytes[(size_t)off] = (char)val; p = *e == ',' ? e + 1 : e; } }
    char fp[700]; snprintf(fp, sizeof fp, "%s/dmg_%ld.c3d", o.out.c_str(), idx);
    writeFileBytes(fp, bytes);
    unsigned long size = bytes.size();
    hookReset();
    g_hook.maxLoopEntries = 4096 + 8 * size;      // entries of the (recursive) parameter-matrix loops: CPU-only loops over zero-sized inner dimensions issue no read
    g_hook.maxReads = 256 + 4 * size; g_hook.maxReadsAfterFail = (unsigned long)o.geti("max_reads_after_fail", 1024);
    g_hook.maxAllocBytes = (8ul << 20) + 400 * size; g_hook.maxSingleAlloc = (64ul << 20) + 400 * size;
    g_hook.hardMult = (unsigned long)o.geti("hardmult", 1); g_hook.softHit = false;
    installAllocHooks();
    g_hook.budgetOn = true;
    std::unique_ptr<ezc3d::c3d> c; Outcome oc;
    log.pre("load", mut);
    VF_TRY(oc, c.reset(new ezc3d::c3d(fp)));
    g_hook.budgetOn = false;
    unlink(fp);
    if (oc.threw) { log.line("RES %ld threw %s reads=%lu afterFail=%lu alloc=%lu", idx, oc.cls.c_str(), g_hook.reads, g_hook.readsAfterFail, g_hook.allocBytes); }
    else {
        // the returned object must be usable: walk it through the const accessors (bounded) and destroy it
        size_t np = 0; for (size_t g = 0; g < c->parameters().nbGroups(); ++g) np += c->parameters().group(g).nbParameters();
        size_t nf = c->data().nbFrames(); size_t walked = 0;
        for (size_t f = 0; f < nf && f < 3; ++f) { SFrame s = takeFrame(c->data().frame(f)); walked += s.pts.size(); }
        // digest of what the object exposes (bounded: small objects only), so that differential checks can compare results, not just outcomes
        unsigned long long dg = 0; if (nf <= 64 && np <= 400) { try { dg = hashSnap(take(*c)); } catch (const std::exception&) { dg = 1; } }
        log.line("RES %ld ok snap=%016llx reads=%lu afterFail=%lu alloc=%lu frames=%zu params=%zu", idx, dg, g_hook.reads, g_hook.readsAfterFail, g_hook.allocBytes, nf, np + walked * 0);
        if (o.geti("savecheck", 0) && nf <= 64 && np <= 400) {
            // C14 on objects "reachable by loading" that no well-formed file produces: saving must not change them and must be repeatable
            Snap before; bool ok = true; try { before = take(*c); } catch (const std::exception&) { ok = false; }
            if (ok) { std::string p1 = o.out + "/sv_" + std::to_string(idx) + "_a.c3d", p2 = o.out + "/sv_" + std::to_string(idx) + "_b.c3d";
                Outcome s1, s2; log.pre("write", "loaded_from_perturbed_file"); VF_TRY(s1, c->write(p1));
                Snap after; try { after = take(*c); } catch (const std::exception&) { ok = false; }
                log.line("CNT c14_perturbed_objects_saved 1");
                if (ok && after != before) { std::vector<std::string> d = diff(before, after, 4); std::string all; for (size_t i = 0; i < d.size(); ++i) all += d[i] + "; "; log.viol("C14", "save_changed_object/loaded_from_perturbed_file", mut + ": " + all); }
                if (!s1.threw) { VF_TRY(s2, c->write(p2)); if (s2.threw) log.viol("C14", "second_save_refused/loaded_from_perturbed_file", mut + ": " + s2.cls); else if (readFileBytes(p1) != readFileBytes(p2)) log.viol("C14", "two_saves_differ/loaded_from_perturbed_file", mut); }
                unlink(p1.c_str()); unlink(p2.c_str()); }
        }
        log.pre("destroy"); c.reset();
    }
}


// C14: several objects saved one after the other in ONE process; every file must equal the file the same object gives when saved alone in a
// fresh process (compared by the check).  Exposes state that survives between saves (static scratch buffers, caches).
void runSaveSeq(const Opts& o, long idx, CaseLog& log) {
    std::vector<std::string> files = readLines(o.list);
    long win = o.geti("window", 6), a = idx * win, b = std::min((long)files.size(), a + win);
    for (int pass = 0; pass < 2; ++pass)
        for (long i = a; i < b; ++i) {
            long j = pass == 0 ? i : (a + b - 1 - i);                 // second pass in reverse order: a different predecessor for every object
            std::unique_ptr<ezc3d::c3d> c; Outcome oc; log.pre("load"); VF_TRY(oc, c.reset(new ezc3d::c3d(files[(size_t)j])));
            if (oc.threw) continue;
            char fp[700]; snprintf(fp, sizeof fp, "%s/seq%d_%ld.c3d", o.out.c_str(), pass, j);
            Outcome so; log.pre("write"); VF_TRY(so, c->write(fp)); log.ev("save_in_sequence", "file=" + std::to_string(j) + " pass=" + std::to_string(pass), so);
        }
    log.line("RES %ld ok window=%ld..%ld", idx, a, b);
}


// C19: floating-point environment probe.  Rates at the extremes of the float range (subnormal, tiny, huge) drive the only float ARITHMETIC the
// library does (rate comparison, ANALOG:RATE / POINT:RATE).  No absolute verdict: the log lines are compared across build configurations.
void runFpProbe(const Opts& o, long idx, CaseLog& log) {
    typedef ezc3d::ParametersNS::GroupNS::Parameter Param;
    static const uint32_t base[] = {0x00010000u, 0x00000001u, 0x007fffffu, 0x00800000u, 0x00800001u, 0x0d000000u, 0x3f800000u, 0x42c80000u, 0x7f000000u, 0x7f7fffffu, 0x33800000u, 0x1e3ce508u};
    Rng r(o.seed, (uint64_t)idx * 31 + 7);
    uint32_t pb = base[idx % (sizeof base / sizeof base[0])]; if (idx >= 48) pb = (uint32_t)r.below(0x7f800000u);
    int k = (int)(1 + (idx / 12) % 4) + (idx >= 48 ? (int)r.below(6) : 0);
    float pr = bitsf(pb), ar = pr * (float)k; if ((idx / 3) % 5 == 4 && pb < 0x00800000u) ar = bitsf(pb * (uint32_t)k);     // also: k times the BIT pattern (exact for subnormals)
    if (!(ar <= 3.4028234e38f && ar >= 0.f)) ar = pr;
    if (idx % 24 == 23) { pr = bitsf(0x7fc00000u); ar = pr; }   // a NaN rate: compares unequal to 0, so frames are taken; every build must make the same of it      // k x (a rate near the top of the float range) overflows to infinity: not a rate (the ratio inf/x has no integer value; converting it is undefined and differs between compilers)
    ezc3d::c3d c; std::ostringstream tr;
    { Outcome oc; Param p("RATE"); p.set(std::vector<float>(1, pr)); VF_TRY(oc, c.parameter("POINT", p)); tr << "prate:" << oc.cls; }
    { Outcome oc; Param p("RATE"); p.set(std::vector<float>(1, ar)); VF_TRY(oc, c.parameter("ANALOG", p)); tr << " arate:" << oc.cls; }
    { Outcome oc; VF_TRY(oc, c.point("P")); tr << " point:" << oc.cls; } { Outcome oc; VF_TRY(oc, c.analog("A")); tr << " analog:" << oc.cls; }
    tr << " sub=" << c.header().nbAnalogByFrame() << " hrate=" << std::hex << fbits(c.header().frameRate()) << std::dec;
    ezc3d::DataNS::Frame f; ezc3d::DataNS::Points3dNS::Points pts; ezc3d::DataNS::Points3dNS::Point pt; pt.name("P"); pt.x(pr); pt.y(ar); pt.z(pr * 0.5f); pts.point(pt);
    ezc3d::DataNS::AnalogsNS::Analogs an; for (size_t s = 0; s < c.header().nbAnalogByFrame() && s < 64; ++s) { ezc3d::DataNS::AnalogsNS::SubFrame sf; ezc3d::DataNS::AnalogsNS::Channel ch; ch.name("A"); ch.data(pr * (float)(s + 1)); sf.channel(ch); an.subframe(sf); }
    f.add(pts, an);
    { Outcome oc; VF_TRY(oc, c.frame(f)); tr << " frame:" << oc.cls; }
    char fp[700]; snprintf(fp, sizeof fp, "%s/fp_%ld.c3d", o.out.c_str(), idx);
    { Outcome oc; VF_TRY(oc, c.write(fp)); tr << " save:" << oc.cls; if (!oc.threw) { tr << " bytes=" << std::hex << fnv(readFileBytes(fp)) << std::dec;
        Outcome lo; std::unique_ptr<ezc3d::c3d> l; if (c.header().nbAnalogByFrame() <= 4096) VF_TRY(lo, l.reset(new ezc3d::c3d(fp))); tr << " load:" << lo.cls; if (l) tr << " lsub=" << l->header().nbAnalogByFrame() << " snap=" << std::hex << hashSnap(take(*l)) << std::dec; } }
    { // the scalar and vector overloads of Parameter::set with NaN / denormal / extreme patterns: returned bits and saved bytes
        static const uint32_t sp[] = {0x7fa00000u, 0x7fa00001u, 0xffa00001u, 0x7f800001u, 0x7fc00000u, 0xffc00001u, 0x00000001u, 0x807fffffu, 0x80000000u, 0x7f7fffffu, 0x00800000u, 0x7fffffffu};
        uint32_t b = sp[idx % (sizeof sp / sizeof sp[0])]; float fv = bitsf(b);
        ezc3d::c3d c2; Param s1("SCALARF"); s1.set(fv); Param s2("SCALARD"); s2.set(static_cast<double>(fv)); Param s3("VECTORF"); s3.set(std::vector<float>(2, fv));
        tr << " set(float)=" << std::hex << fbits(s1.valuesAsFloat()[0]) << " set(double)=" << fbits(s2.valuesAsFloat()[0]) << " set(vector)=" << fbits(s3.valuesAsFloat()[0]) << std::dec;
        c2.parameter("FP", s1); c2.parameter("FP", s2); c2.parameter("FP", s3);
        snprintf(fp, sizeof fp, "%s/fpp_%ld.c3d", o.out.c_str(), idx); Outcome oc; VF_TRY(oc, c2.write(fp)); if (!oc.threw) tr << " pbytes=" << std::hex << fnv(readFileBytes(fp)) << std::dec; unlink(fp); }
    Outcome none; log.ev("fpprobe", tr.str(), none);
    log.line("RES %ld %08x x%d %s", idx, pb, k, tr.str().c_str());
    unlink(fp);
}


// C14: objects assembled with the SIZE constructors (Points(n), Analogs(n), SubFrame(n)) and default-constructed points/channels whose
// values the caller never sets; what is saved must still be determined by the object (zeros), not by whatever the heap held.
void runSizedSave(const Opts& o, long idx, CaseLog& log) {
    typedef ezc3d::ParametersNS::GroupNS::Parameter Param;
    Rng r(o.seed, (uint64_t)idx * 17 + 3);
    int np = r.range(0, 6), nc = r.range(1, 6), ns = r.range(1, 4), nf = r.range(1, 5);
    ezc3d::c3d c;
    { Param p("RATE"); p.set(std::vector<float>(1, 100.f)); c.parameter("POINT", p); Param a("RATE"); a.set(std::vector<float>(1, 100.f * ns)); c.parameter("ANALOG", a); }
    for (int i = 0; i < np; ++i) c.point("S" + std::to_string(i));
    for (int i = 0; i < nc; ++i) c.analog("Z" + std::to_string(i));
    // scribble over the heap first so that fresh allocations do not come back zeroed by chance
    { std::vector<std::vector<float> > junk; for (int k = 0; k < 200; ++k) junk.push_back(std::vector<float>((size_t)r.range(1, 64), 1234.5f + k)); }
    Outcome fo;
    for (int f = 0; f < nf && !fo.threw; ++f) {
        ezc3d::DataNS::Points3dNS::Points pts((size_t)np);                       // np default points
        for (int i = 0; i < np; ++i) pts.point_nonConst((size_t)i).name("S" + std::to_string(i));   // named, coordinates never set
        ezc3d::DataNS::AnalogsNS::Analogs an((size_t)ns);                         // ns default sub-frames
        for (int s = 0; s < ns; ++s) an.subframe_nonConst((size_t)s) = ezc3d::DataNS::AnalogsNS::SubFrame((size_t)nc);   // nc default channels, values never set
        // every third object: the later sub-frames hold one channel fewer (frame() looks at sub-frame 0 only, so the object is reachable);
        // whatever the writer makes of it, the bytes must come from the object, not from the heap
        if (idx % 3 == 2) for (int s = 1; s < ns; ++s) { ezc3d::DataNS::AnalogsNS::SubFrame sf; for (int k = 0; k + 1 < nc; ++k) { ezc3d::DataNS::AnalogsNS::Channel ch; ch.name("Z" + std::to_string(k)); ch.data(0.25f * (float)(k + s)); sf.channel(ch); } an.subframe_nonConst((size_t)s) = sf; }
        ezc3d::DataNS::Frame fr; fr.add(pts, an);
        log.pre("frame"); VF_TRY(fo, c.frame(fr));
    }
    log.ev("sized_frames", "np=" + std::to_string(np) + " nc=" + std::to_string(nc) + " ns=" + std::to_string(ns) + " nf=" + std::to_string(nf), fo);
    char fp[700]; snprintf(fp, sizeof fp, "%s/sized_%ld.c3d", o.out.c_str(), idx);
    Outcome so; log.pre("write"); VF_TRY(so, c.write(fp)); log.ev("save", "", so);
    // a default point / channel reads as zero
    bool zero = true; for (size_t f = 0; f < c.data().nbFrames(); ++f) { const ezc3d::DataNS::Frame& F = c.data().frame(f); for (size_t i = 0; i < F.points().nbPoints(); ++i) if (fbits(F.points().point(i).x()) | fbits(F.points().point(i).residual())) zero = false; }
    log.line("RES %ld %s frames=%zu default_points_zero=%d", idx, so.threw ? "save_threw" : "ok", c.data().nbFrames(), zero ? 1 : 0);
}

}  // namespace vf
