// History engine: adaptive generation of API call sequences + online relational monitors (C01, C05-C11, C14 purity).
#pragma once
#include "common.h"
#include "snap.h"
#include <memory>

namespace vf {

typedef ezc3d::ParametersNS::GroupNS::Parameter Param;
typedef ezc3d::DataNS::Frame Frame;
typedef ezc3d::DataNS::Points3dNS::Points Points;
typedef ezc3d::DataNS::Points3dNS::Point Point;
typedef ezc3d::DataNS::AnalogsNS::Analogs Analogs;
typedef ezc3d::DataNS::AnalogsNS::SubFrame SubFrame;
typedef ezc3d::DataNS::AnalogsNS::Channel Channel;

uint32_t genFloatBits(Rng& r, bool special);
size_t paramSectionBytes(const Snap& s);   // bytes the parameter section of a save takes (before the end marker and padding)
std::string dimsToStr(const std::vector<size_t>& d);

struct Hist {
    const Opts& o; long idx; CaseLog& log; Rng rng;
    std::unique_ptr<ezc3d::c3d> obj;
    Snap prev;
    bool wild;               // undocumented deviations allowed: only C10/C13 (+C14 purity) judged
    bool managedEdited;      // a managed POINT/ANALOG parameter was overwritten by the caller: C05 off
    bool declaredByName;     // every point/channel of the object was declared by name in this history
    bool external;           // object came from an external file (labels may legitimately differ)
    bool specialFloats;
    bool analogIncomplete;   // loaded from a file whose ANALOG group lacks mandatory parameters (see run())
    bool columnOverGaps, columnOverGapsReported;   // a column was added while empty gap frames existed (recorded finding, see checkC05)
    bool pendingUnspecified, hadUnspecified, fileOffSpec;   // an undocumented call was accepted (see afterMutator)
    bool beyondInt16;        // an int parameter holds a value outside 16 bits (through set(size_t)): saving must refuse it (C17), C01/C03 not judged
    bool caseVariantNames;   // two parameters of one group differ by case only: not representable in a file (C01 not judged)
    bool offSpec;            // an undocumented (unspecified) call was accepted: shape agreement is no longer judged
    bool namedChannels;      // this history's caller names its channels (README leaves them unnamed)
    std::vector<Frame> callerFrames;          // caller-side frame objects handed over earlier (C08)
    std::vector<int> callerFrameTarget;       // stored index it was last submitted to (-1 unknown)
    std::string tmp;         // scratch dir for saves
    int nSaves;
    std::map<std::string, long> counts;

    Hist(const Opts& o_, long idx_, CaseLog& log_);
    void run();

    // operations (return false when not applicable in the current state)
    bool opSetRate(bool analog);
    bool opDeclarePoint();
    bool opDeclareChannel();
    bool opAddParam();
    bool opParamSet();
    bool opLock();
    bool opFrame(int how);           // 0 append, 1 replace, 2 extend
    bool opResubmit();
    bool opMutateCaller();
    bool opPointColumn();
    bool opChannelColumn();
    bool opLookups();
    bool opRoundTrip(bool continueOnLoaded);
    bool opSaveTwice();
    bool opPrint();
    bool opWildEdit();
    bool opCopyOut();
    bool opReadModifyWrite();
    bool opSelfFrame();
    bool opReRate();
    bool opSelfParam();
    void rebuildAndCompare();
    bool opRenameCopy();
    bool opFailedLoad();
    bool opSecondObject();
    bool opManyPoints();
    bool opRetainedRefEdit();
    bool opManyFrames(size_t target = 0);
    bool opBulkParams();
    void loadDecoy();
    bool bulkDone;

    // helpers
    Frame buildFrame(int deviation, std::string* devName, SFrame* intended, int forceSub = -1);
    void afterMutator(const std::string& op, const Outcome& oc, bool isPublicMutator = true);
    void checkC05(const Snap& s, const std::string& op);
    void checkFrameRelation(const std::string& op, const Snap& cur, size_t target, bool append, const SFrame& submitted, size_t idxArg);
    void checkC07Frame(const std::string& op, const SFrame& sub, const Outcome& oc);
    std::string freshName(const char* prefix, const std::vector<std::string>& taken);
    Param genParam(const std::string& name, std::string* descr);
    void bump(const std::string& k) { ++counts[k]; }
    std::string savePath(const char* tag);
};

void runHistCase(const Opts& o, long idx, CaseLog& log);

}  // namespace vf
