#include "hist.h"
#include <cstring>
#include <algorithm>
#include <cmath>
#include <sstream>
#include <sys/stat.h>
#include <unistd.h>

namespace vf {

uint32_t genFloatBits(Rng& r, bool special) {
    if (!special || r.chance(70)) {
        // ordinary finite values
        int k = r.range(0, 5);
        float f;
        switch (k) {
            case 0: f = (float)r.range(-1000, 1000); break;
            case 1: f = (float)r.range(-100000, 100000) / 128.0f; break;
            case 2: f = (float)r.range(1, 999) * 1e-3f; break;
            case 3: f = (float)r.range(-50, 50) * 1e6f; break;
            default: { uint32_t u = (uint32_t)r.next(); u &= 0xBFFFFFFFu; if (((u >> 23) & 0xff) == 0xff) u &= ~(1u << 23 << 7); f = bitsf(u); if (f != f || std::isinf(f)) f = 1.5f; }
        }
        return fbits(f);
    }
    static const uint32_t sp[] = {0x00000000u, 0x80000000u, 0x00000001u, 0x807fffffu, 0x00800000u, 0x7f7fffffu, 0xff7fffffu, 0x7f800000u, 0xff800000u,
                                  0x7fc00000u, 0xffc00000u, 0x7fa00001u, 0xff800001u, 0x7fffffffu, 0x3f800000u, 0xbf800000u, 0x7f800001u, 0x00400000u};
    if (r.chance(60)) return sp[r.below(sizeof sp / sizeof sp[0])];
    uint32_t e = (uint32_t)r.below(256), m;
    switch (r.range(0, 3)) { case 0: m = 0; break; case 1: m = 1; break; case 2: m = 0x7fffff; break; default: m = (uint32_t)r.below(1u << 23); }
    return ((uint32_t)r.below(2) << 31) | (e << 23) | m;
}

std::string dimsToStr(const std::vector<size_t>& d) { std::ostringstream o; o << "["; for (size_t i = 0; i < d.size(); ++i) o << (i ? "," : "") << d[i]; o << "]"; return o.str(); }

static std::string upperS(std::string s) { for (size_t i = 0; i < s.size(); ++i) s[i] = (char)toupper((unsigned char)s[i]); return s; }

size_t paramSectionBytes(const Snap& s) {
    size_t est = 4;
    for (size_t g = 0; g < s.groups.size(); ++g) { if (s.groups[g].name.empty()) continue; est += 5 + s.groups[g].name.size() + s.groups[g].desc.size();
        for (size_t q = 0; q < s.groups[g].params.size(); ++q) { const SParam& P = s.groups[g].params[q]; size_t prod = 1; for (size_t i = 0; i < P.dims.size(); ++i) prod *= P.dims[i];
            est += 7 + P.name.size() + P.desc.size() + ((P.dims.size() == 1 && P.dims[0] == 1) ? 0 : P.dims.size()) /* a scalar is written with 0 dimensions */ + (P.type == ezc3d::CHAR || P.type == ezc3d::BYTE ? prod : P.type == ezc3d::FLOAT ? 4 * prod : 2 * prod); } }
    return est;
}

Hist::Hist(const Opts& o_, long idx_, CaseLog& log_) : o(o_), idx(idx_), log(log_), rng(o_.seed, (uint64_t)idx_ * 7919 + fnv(o_.profile)),
    wild(o_.wild || (o_.geti("wildpct", 0) > 0 && (long)(Rng(o_.seed, (uint64_t)idx_ * 13 + 5).below(100)) < o_.geti("wildpct", 0))), bulkDone(false), managedEdited(false), declaredByName(true), external(false), specialFloats(false), analogIncomplete(false), columnOverGaps(false), columnOverGapsReported(false), pendingUnspecified(false), hadUnspecified(false), fileOffSpec(false), beyondInt16(false), caseVariantNames(false), offSpec(false), namedChannels(false), nSaves(0) {
    char b[600]; snprintf(b, sizeof b, "%s/tmp_%ld", o.out.c_str(), idx); tmp = b; mkdir(tmp.c_str(), 0755);
}

std::string Hist::savePath(const char* tag) { char b[700]; snprintf(b, sizeof b, "%s/%s_%d.c3d", tmp.c_str(), tag, nSaves++); return b; }

std::string Hist::freshName(const char* prefix, const std::vector<std::string>& taken) {
    static const char alpha[] = "abcdefghijklmnopqrstuvwxyzABCDEFGHIJKLMNOPQRSTUVWXYZ0123456789_:#.-";
    for (int tries = 0; tries < 200; ++tries) {
        std::ostringstream s;
        int style = rng.range(0, 12);
        int n = rng.range(0, 40);
        if (style < 5) s << prefix << n;
        else if (style == 5) s << (char)tolower(prefix[0]) << "x:" << n << "_mk";
        else if (style == 6) s << prefix << " " << n << " b";           // embedded blank
        else if (style == 7) s << prefix << std::string((size_t)rng.range(8, 28), 'q') << n;
        else if (style == 8) s << "L" << prefix << n << "#";
        else if (style == 12) s << prefix << n << "\t\r\n\v\f"[rng.below(5)];   // ends in white space that is not a blank: part of the name (only blanks are padding)
        else { s << prefix; int k = rng.range(2, 14); for (int i = 0; i < k; ++i) s << alpha[rng.below(sizeof alpha - 1)]; }   // any letter in either case, digits, punctuation
        std::string c = s.str(); bool clash = false;
        // (only where a check asks for it, --blanknames 1: C14) a group name that ENDS in blanks; the blanks are part of the name
        if (o.geti("blanknames", 0) && !strcmp(prefix, "Grp") && rng.chance(20)) c += std::string((size_t)rng.range(1, 3), ' ');
        for (size_t i = 0; i < taken.size(); ++i) if (upperS(taken[i]) == upperS(c)) { clash = true; break; }
        if (!clash) return c;
    }
    return std::string(prefix) + "_zz" + std::to_string((long long)rng.next());
}

// ---------------------------------------------------------------------------------------------------------------
// C05: agreement of header, POINT/ANALOG parameters and stored data
// ---------------------------------------------------------------------------------------------------------------
static bool intParam0(const Snap& s, const char* g, const char* p, long& v) {
    const SParam* q = s.param(g, p); if (!q || q->type != ezc3d::INT || q->iv.empty()) return false; v = q->iv[0]; return true;
}
static bool floatParam0(const Snap& s, const char* g, const char* p, float& v) {
    const SParam* q = s.param(g, p); if (!q || q->type != ezc3d::FLOAT || q->fv.empty()) return false; v = bitsf(q->fv[0]); return true;
}

void Hist::checkC05(const Snap& s, const std::string& op) {
    if (wild || managedEdited || (offSpec && !columnOverGaps)) return;
    if (offSpec && columnOverGaps && columnOverGapsReported) return;
    if (columnOverGaps) columnOverGapsReported = true;
    bump("c05_checked");
    std::ostringstream d;
    std::vector<std::pair<std::string, std::string> > v;   // key, detail
#define C05V(key, expr) do { std::ostringstream q__; q__ << expr; v.push_back(std::make_pair(std::string(key), q__.str())); } while (0)
    long used = 0, frames = 0, aused = 0; float prate = 0;
    bool hasAnalogGroup = s.findGroup("ANALOG") >= 0 && !s.groups[s.findGroup("ANALOG")].params.empty();
    if (!intParam0(s, "POINT", "USED", used)) C05V("point_used/unreadable", "POINT:USED missing or not an int");
    if (!intParam0(s, "POINT", "FRAMES", frames)) C05V("point_frames/unreadable", "POINT:FRAMES missing");
    if (!floatParam0(s, "POINT", "RATE", prate)) C05V("point_rate/unreadable", "POINT:RATE missing");
    if (hasAnalogGroup && !intParam0(s, "ANALOG", "USED", aused)) C05V("analog_used/unreadable", "ANALOG:USED missing");
    size_t firstFilled = SIZE_MAX;
    for (size_t f = 0; f < s.frames.size(); ++f) if (!s.frames[f].empty()) { firstFilled = f; break; }
    if (columnOverGaps) {
        // a point/channel column was added while empty gap frames existed: the gap frames now hold just that column (C06 is satisfied:
        // exactly one column each) but no longer the declared shape.  Reported once under its own key, then this history is not judged further.
        bool bad = false; for (size_t f = 0; f < s.frames.size(); ++f) if (!s.frames[f].empty() && s.frames[f].pts.size() != s.h.nPts) bad = true;
        for (size_t f = 0; f < s.frames.size() && !bad; ++f) if (!s.frames[f].empty() && s.frames[f].subs.size() != s.h.sub && s.h.nAnalogs) bad = true;
        if (bad) log.viol("C05", "shape/column_added_over_gap_frames@" + op, "after a column was added to a data set holding empty gap frames, the former gap frames carry only the new column | shape " + shapeSig(s));
        offSpec = true; return;
    }
    if (firstFilled != 0 && firstFilled != SIZE_MAX) {
        // every count is derived from stored frame 0; when frame 0 is a gap the three views fall apart in many ways: report the cause once
        std::ostringstream q; q << "frame 0 is an empty gap frame, first filled frame is " << firstFilled << ": header points=" << s.h.nPts << " POINT:USED=" << used << " header frames=" << s.h.nbFrames << " POINT:FRAMES=" << frames << " stored=" << s.frames.size() << " filled frame has " << s.frames[firstFilled].pts.size() << " points";
        log.viol("C05", "shape/frame0_is_gap@" + op, q.str() + " | shape " + shapeSig(s)); offSpec = true; return;
    }
    // points
    if ((size_t)used != s.h.nPts) C05V("points/header_vs_used", "header points=" << s.h.nPts << " POINT:USED=" << used);
    for (size_t f = 0; f < s.frames.size(); ++f) if (!s.frames[f].empty() && s.frames[f].pts.size() != s.h.nPts) {
        C05V(firstFilled != 0 && f == firstFilled ? "points/header_vs_data/frame0_is_gap" : "points/header_vs_data", "frame " << f << " has " << s.frames[f].pts.size() << " points, header=" << s.h.nPts << " USED=" << used); break; }
    // frames
    if (s.h.nbFrames != s.frames.size() || (size_t)frames != s.frames.size())
        C05V((firstFilled != 0 && firstFilled != SIZE_MAX) ? "frames/count/frame0_is_gap" : "frames/count", "header frames=" << s.h.nbFrames << " POINT:FRAMES=" << frames << " stored=" << s.frames.size() << " (first=" << s.h.first << " last=" << s.h.last << ")");
    // sub-frames and channels.  A frame that stores zero analog samples has no observable sub-frame count.
    for (size_t f = 0; f < s.frames.size(); ++f) {
        const SFrame& F = s.frames[f]; if (F.empty()) continue;
        size_t samples = 0; for (size_t q = 0; q < F.subs.size(); ++q) samples += F.subs[q].size();
        if (samples == 0 && s.h.nAnalogs == 0 && aused == 0) continue;
        if (F.subs.size() != s.h.sub) { C05V(firstFilled != 0 && f == firstFilled ? "subframes/header_vs_data/frame0_is_gap" : "subframes/header_vs_data", "frame " << f << " has " << F.subs.size() << " sub-frames, header=" << s.h.sub); break; }
        bool bad = false;
        for (size_t q = 0; q < F.subs.size(); ++q) if (F.subs[q].size() != s.h.nAnalogs || F.subs[q].size() != (size_t)aused) {
            C05V("channels/header_vs_used_vs_data", "frame " << f << " sub " << q << " has " << F.subs[q].size() << " channels, header=" << s.h.nAnalogs << " ANALOG:USED=" << aused); bad = true; break; }
        if (bad) break;
    }
    if (s.h.sub >= 1 && hasAnalogGroup) {
        if (s.h.nAnalogs != (size_t)aused) C05V("channels/header_vs_used", "header channels=" << s.h.nAnalogs << " ANALOG:USED=" << aused << " sub=" << s.h.sub << " meas=" << s.h.nMeas);
        if (s.h.nMeas != (size_t)aused * s.h.sub) C05V("samples_per_frame", "header samples/frame=" << s.h.nMeas << " ANALOG:USED=" << aused << " x sub=" << s.h.sub);
    }
    // rate
    { double a = bitsf(s.h.rate), b = prate; if (!(std::fabs(a - b) <= 1e-4)) C05V("rate", "header rate=" << a << " POINT:RATE=" << b); }
    // label arrays
    if (declaredByName && !external && !hadUnspecified) {
        const char* pn[] = {"LABELS", "DESCRIPTIONS", "UNITS"};
        for (int i = 0; i < 3; ++i) { const SParam* q = s.param("POINT", pn[i]); size_t n = q ? (q->type == ezc3d::CHAR ? q->sv.size() : SIZE_MAX) : SIZE_MAX;
            if (n != (size_t)used) C05V(std::string("point_arrays/") + pn[i], "POINT:" << pn[i] << " has " << (long)n << " entries, POINT:USED=" << used); }
        const SParam* L = s.param("POINT", "LABELS");
        if (L && L->type == ezc3d::CHAR) for (size_t f = 0; f < s.frames.size(); ++f) { const SFrame& F = s.frames[f]; if (F.empty()) continue; bool bad = false;
            for (size_t i = 0; i < F.pts.size() && i < L->sv.size(); ++i) if (F.pts[i].name != L->sv[i]) { C05V("point_labels/order", "frame " << f << " point " << i << " named '" << esc(F.pts[i].name) << "' but LABELS[" << i << "]='" << esc(L->sv[i]) << "'"); bad = true; break; }
            if (bad) break; }
        if (hasAnalogGroup) {
            const char* an[] = {"LABELS", "DESCRIPTIONS", "SCALE", "OFFSET", "UNITS"};
            for (int i = 0; i < 5; ++i) { const SParam* q = s.param("ANALOG", an[i]); size_t n = SIZE_MAX;
                if (q) n = q->type == ezc3d::CHAR ? q->sv.size() : q->type == ezc3d::FLOAT ? q->fv.size() : q->iv.size();
                if (n != (size_t)aused) C05V(std::string("analog_arrays/") + an[i], "ANALOG:" << an[i] << " has " << (long)n << " entries, ANALOG:USED=" << aused); }
            const SParam* AL = s.param("ANALOG", "LABELS");
            if (AL && AL->type == ezc3d::CHAR) for (size_t f = 0; f < s.frames.size(); ++f) { const SFrame& F = s.frames[f]; bool bad = false;
                for (size_t q = 0; q < F.subs.size() && !bad; ++q) for (size_t k = 0; k < F.subs[q].size() && k < AL->sv.size(); ++k)
                    if (namedChannels && F.subs[q][k].name != AL->sv[k]) { C05V("analog_labels/order", "frame " << f << " channel " << k << " named '" << esc(F.subs[q][k].name) << "' but LABELS='" << esc(AL->sv[k]) << "'"); bad = true; break; }
                if (bad) break; }
        }
    }
#undef C05V
    for (size_t i = 0; i < v.size(); ++i) log.viol("C05", v[i].first + "@" + op, v[i].second + " | shape " + shapeSig(s));
}

// Called after every mutating call: takes the new snapshot, applies C10 / C05, and rolls prev forward.
void Hist::afterMutator(const std::string& op, const Outcome& oc, bool isPublicMutator) {
    Snap cur = take(*obj);
    if (oc.threw) {
        bump("refused");
        bump("refused:" + op + ":" + oc.cls);
        if (isPublicMutator && cur != prev) {
            std::vector<std::string> d = diff(prev, cur, 6); std::string all;
            for (size_t i = 0; i < d.size(); ++i) all += d[i] + "; ";
            std::string where = d.empty() ? "?" : d[0].substr(0, d[0].find_first_of(":[("));
            if (managedEdited) log.viol("C10", "changed_after_refusal/after_hostile_managed_edit", op + " threw " + oc.cls + " (" + oc.what.substr(0, 80) + ") from the updaters after a managed POINT/ANALOG parameter had been overwritten by the caller: " + all);
            else log.viol("C10", "changed_after_refusal/" + op + "/" + oc.cls + "/" + where, all);
        } else if (isPublicMutator) bump("c10_unchanged_ok");
    } else {
        if (pendingUnspecified) {
            // An accepted call the documentation is silent on: the declared shape is no longer defined by declarations.  If every stored
            // frame has the same shape afterwards, that shape is what the three views must agree on (judged, without the label arrays);
            // if the frames now differ in shape there is no "shape of the data" and this history is not judged any further.
            pendingUnspecified = false; fileOffSpec = true;     // what a FILE of this object means is not defined by the documentation (rates may contradict the stored sub-frames): C01/C03 not judged
            bool uniform = true; const SFrame* ref = 0;
            for (size_t f = 0; f < cur.frames.size() && uniform; ++f) { const SFrame& F = cur.frames[f]; if (F.empty()) continue;
                for (size_t s = 1; s < F.subs.size(); ++s) if (F.subs[s].size() != F.subs[0].size()) uniform = false;
                if (!ref) ref = &F; else if (F.pts.size() != ref->pts.size() || F.subs.size() != ref->subs.size() || (!F.subs.empty() && F.subs[0].size() != ref->subs[0].size())) uniform = false; }
            if (!uniform || !ref) offSpec = true;
        }
        checkC05(cur, op);
    }
    prev = cur;
}

void runHistCase(const Opts& o, long idx, CaseLog& log) { Hist h(o, idx, log); h.run(); }

}  // namespace vf
