#include "hist.h"
#include <algorithm>
#include <sstream>
#include <set>

namespace vf {

static std::string trimmed(std::string s) { while (!s.empty() && s[s.size() - 1] == ' ') s.erase(s.size() - 1); return s; }

static std::vector<std::string> labelsOf(const Snap& s, const char* grp) {
    const SParam* q = s.param(grp, "LABELS");
    if (q && q->type == ezc3d::CHAR) return q->sv;
    return std::vector<std::string>();
}
static long int0(const Snap& s, const char* g, const char* p, long d = 0) { const SParam* q = s.param(g, p); return (q && q->type == ezc3d::INT && !q->iv.empty()) ? q->iv[0] : d; }
static float float0(const Snap& s, const char* g, const char* p) { const SParam* q = s.param(g, p); return (q && q->type == ezc3d::FLOAT && !q->fv.empty()) ? bitsf(q->fv[0]) : 0.f; }
static bool subsUniform(const Snap& s) { for (size_t f = 0; f < s.frames.size(); ++f) if (!s.frames[f].empty() && s.frames[f].subs.size() != s.h.sub) return false; return true; }
static bool hasGaps(const Snap& s) { bool any = false, gap = false; for (size_t f = 0; f < s.frames.size(); ++f) { if (s.frames[f].empty()) gap = true; else any = true; } return gap && (any || s.frames.size() > 0); }

// builds a point and records the INTENDED content (what the caller asked for), independent of what the library hands back
static Point mkPoint(Hist& h, const std::string& name, SPoint* intended = 0) {
    Point pt; pt.name(name);
    uint32_t b[4]; for (int i = 0; i < 4; ++i) b[i] = genFloatBits(h.rng, h.specialFloats);
    pt.x(bitsf(b[0])); pt.y(bitsf(b[1])); pt.z(bitsf(b[2])); pt.residual(bitsf(b[3]));
    if (intended) { intended->name = trimmed(name); for (int i = 0; i < 4; ++i) intended->v[i] = b[i]; }
    return pt;
}

// Build a caller-side frame the README way (querying the live object), then apply one deviation.
Frame Hist::buildFrame(int dev, std::string* devName, SFrame* intended, int forceSub) {
    SFrame want;
    static const char* names[] = {"valid", "pts-1", "pts+1", "renamed", "duplicated", "ch-1", "ch+1", "empty", "sub-1", "sub+1", "shuffled", "no_analogs", "uneven_channels", "sized_ctor", "undeclared_points"};
    if (devName) *devName = names[dev];
    // the README queries POINT:LABELS, POINT:USED, ANALOG:LABELS and the header of the live object; prev is the snapshot of exactly that state
    std::vector<std::string> labels = labelsOf(prev, "POINT");
    long usedL = int0(prev, "POINT", "USED"); size_t nPoints = usedL > 0 ? (size_t)usedL : 0;
    std::vector<std::string> alabels = labelsOf(prev, "ANALOG");
    size_t nCh = prev.h.nAnalogs, nSub = prev.h.sub;
    if (forceSub >= 0) { nSub = (size_t)forceSub; long au = int0(prev, "ANALOG", "USED"); nCh = au > 0 ? (size_t)au : nCh; }   // the caller supplies sub-frames although the header ratio is 0
    if (nPoints > 300) nPoints = 300;
    if (nCh > 300) nCh = 300;
    if (nSub > 80) nSub = 80;
    std::vector<std::string> pn;
    for (size_t i = 0; i < nPoints; ++i) pn.push_back(i < labels.size() ? labels[i] : ("extra_" + std::to_string((long long)i)));
    if (dev == 14) { size_t k = (size_t)rng.range(1, 4); std::vector<std::string> taken; for (size_t i = 0; i < k; ++i) { pn.push_back(freshName("U", taken)); taken.push_back(pn.back()); } }
    if (dev == 1 && !pn.empty()) pn.erase(pn.begin() + (long)rng.below(pn.size()));
    if (dev == 2) pn.insert(pn.begin() + (long)rng.below(pn.size() + 1), freshName("X", pn));
    if (dev == 3 && !pn.empty()) pn[rng.below(pn.size())] = freshName("R", pn);
    if (dev == 4 && pn.size() >= 2) { size_t a = rng.below(pn.size()), b = (a + 1 + rng.below(pn.size() - 1)) % pn.size(); pn[a] = pn[b]; }
    if (dev == 10 && pn.size() >= 2) std::swap(pn[0], pn[pn.size() - 1]);
    if (dev == 7) pn.clear();
    Points pts;
    if (dev == 13) { pts = Points(pn.size()); }
    else {
        int order = rng.range(0, 3);     // 0,1: push; 2: explicit ascending index (index == current count); 3: explicit descending index (grows first, then fills)
        want.pts.resize(pn.size());
        for (size_t q = 0; q < pn.size(); ++q) { size_t i = order == 3 ? pn.size() - 1 - q : q; SPoint ip; Point p = mkPoint(*this, pn[i], &ip); if (order >= 2) pts.point(p, i); else pts.point(p); want.pts[i] = ip; }
    }
    size_t ch = nCh, sub = nSub;
    if (dev == 5 && ch > 0) --ch;
    if (dev == 6) ++ch;
    if (dev == 8 && sub > 0) --sub;
    if (dev == 9) ++sub;
    if (dev == 7 || dev == 11) sub = 0;
    bool named = namedChannels || (wild && rng.chance(50));
    bool subByIdx = rng.chance(35);      // sub-frames placed with an explicit index equal to the current count
    Analogs an;
    for (size_t s = 0; s < sub; ++s) {
        SubFrame sf;
        size_t chHere = ch; if (dev == 12 && s == sub - 1 && ch > 0) chHere = ch - 1;
        if (dev == 13) sf = SubFrame(chHere);
        else { std::vector<SChan> ws; bool byIdx = rng.chance(35); for (size_t k = 0; k < chHere; ++k) { Channel cc; SChan ic; if (named && k < alabels.size()) { cc.name(alabels[k]); ic.name = trimmed(alabels[k]); } ic.v = genFloatBits(rng, specialFloats); cc.data(bitsf(ic.v)); if (byIdx) sf.channel(cc, k); else sf.channel(cc); ws.push_back(ic); } want.subs.push_back(ws); }
        if (subByIdx) an.subframe(sf, s); else an.subframe(sf);
    }
    Frame f; f.add(pts, an);
    if (intended) { if (dev == 13) *intended = takeFrame(f); else *intended = want; }
    return f;
}

// C07: allowed outcomes for c3d::frame from the pre-call snapshot and the submitted content.
void Hist::checkC07Frame(const std::string& op, const SFrame& sub, const Outcome& oc) {
    if (wild) return;
    const Snap& s = prev;
    long used = int0(s, "POINT", "USED"), aused = int0(s, "ANALOG", "USED");
    float prate = float0(s, "POINT", "RATE"), arate = float0(s, "ANALOG", "RATE");
    std::vector<std::string> labels = labelsOf(s, "POINT");
    std::set<std::string> defects; std::string why;
    size_t nP = sub.pts.size(), nS = sub.subs.size(), nC = nS ? sub.subs[0].size() : 0, samples = 0;
    bool uniform = true; for (size_t q = 0; q < nS; ++q) { samples += sub.subs[q].size(); if (sub.subs[q].size() != nC) uniform = false; }
    bool unspecified = !uniform;
    if (used != 0 && nP != (size_t)used) { defects.insert("runtime_error"); why += "points!=USED;"; }
    if (nP > 0 && prate == 0.0f) { defects.insert("runtime_error"); why += "points_with_rate0;"; }
    if (samples > 0 && arate == 0.0f) { defects.insert("runtime_error"); why += "samples_with_rate0;"; }
    if (nS > 0 && samples == 0 && arate == 0.0f) unspecified = true;
    if (aused != 0 && nS > 0 && nC != (size_t)aused) { defects.insert("runtime_error"); why += "channels!=USED;"; }
    if (aused != 0 && nS == 0) unspecified = true;                 // no sub-frame at all while channels are declared: not documented
    if (aused == 0 && samples > 0) unspecified = true;             // channels supplied while none declared
    for (size_t i = 0; i < labels.size(); ++i) { bool found = false; for (size_t k = 0; k < nP; ++k) if (sub.pts[k].name == labels[i]) { found = true; break; }
        if (!found) { defects.insert("invalid_argument"); why += "label_missing;"; break; } }
    if (used == 0 && nP > 0) unspecified = true;                   // undeclared points: neither listed as refused nor as "matching"
    if (nS != s.h.sub && !(nS == 0 && samples == 0 && aused == 0)) unspecified = true;   // sub-frame ratio not matched: undocumented
    if (used != 0 && nP == (size_t)used) {                          // names match but in a different order: undocumented
        for (size_t i = 0; i < nP && i < labels.size(); ++i) if (sub.pts[i].name != labels[i]) { if (defects.empty()) unspecified = true; break; }
    }
    bump("c07_frame_calls");
    if (!defects.empty()) {
        bump("c07_frame_defective");
        if (!oc.threw) log.viol("C07", "frame/defect_accepted/" + why, op + " accepted although " + why + " submitted " + frameSig(sub));
        else { bool okc = false; for (std::set<std::string>::iterator it = defects.begin(); it != defects.end(); ++it) if (satisfies(oc.cls, *it)) okc = true;
            if (!okc) log.viol("C07", "frame/wrong_class/" + why + "/" + oc.cls, op + " refused with " + oc.cls + " (" + oc.what + ") but documented class for " + why); }
    } else if (unspecified) { bump("c07_frame_unspecified"); if (!oc.threw) { pendingUnspecified = true; hadUnspecified = true; bump("c07_frame_unspecified_accepted"); } }
    else { bump("c07_frame_valid"); if (oc.threw) log.viol("C07", "frame/valid_refused/" + oc.cls, op + " refused a matching frame: " + oc.what + " submitted " + frameSig(sub) + " state " + shapeSig(s)); }
}

// C06: relation between consecutive snapshots for a frame call that returned normally.
void Hist::checkFrameRelation(const std::string& op, const Snap& cur, size_t target, bool append, const SFrame& sub, size_t idxArg) {
    const Snap& p = prev;
    size_t expect = append ? p.frames.size() + 1 : (idxArg < p.frames.size() ? p.frames.size() : idxArg + 1);
    bump("c06_frame_checked");
    if (cur.frames.size() != expect) { std::ostringstream d; d << "frame count " << p.frames.size() << " -> " << cur.frames.size() << ", expected " << expect; log.viol("C06", "frame/count/" + op, d.str()); return; }
    if (target >= cur.frames.size()) return;
    if (cur.frames[target] != sub) {
        SFrame a = sub; std::ostringstream d; d << "stored frame " << target << " differs from the submitted one:";
        Snap x, y; x.frames.push_back(sub); y.frames.push_back(cur.frames[target]); std::vector<std::string> dd = diff(x, y, 3);   // header fields are uninitialised here; only frame lines matter
        std::string all; for (size_t i = 0; i < dd.size(); ++i) if (dd[i].compare(0, 5, "frame") == 0) all += dd[i];
        std::string comp = all.find("residual") != std::string::npos ? "residual" : all.find("name") != std::string::npos ? "name" : all.find("npts") != std::string::npos ? "npts" : all.find("sub") != std::string::npos ? "analog" : "xyz";
        log.viol("C06", "frame/target_content/" + comp + "/" + op, d.str() + all);
    }
    for (size_t f = 0; f < p.frames.size() && f < cur.frames.size(); ++f) if (f != target && cur.frames[f] != p.frames[f]) {
        std::ostringstream d; d << "frame " << f << " changed although the target was " << target; log.viol("C06", "frame/other_changed/" + op, d.str()); break; }
    for (size_t f = p.frames.size(); f < cur.frames.size(); ++f) if (f != target && !cur.frames[f].empty()) {
        std::ostringstream d; d << "in-between frame " << f << " is not empty: " << frameSig(cur.frames[f]); log.viol("C06", "frame/gap_not_empty/" + op, d.str()); break; }
}

bool Hist::opFrame(int how) {
    size_t n = prev.frames.size();
    if (how == 1 && n == 0) return false;
    if (!wild && prev.h.sub > 5000) return false;      // (a history that set tens of thousands of sub-frames per frame judges the counts only)
    long used = int0(prev, "POINT", "USED"), aused = int0(prev, "ANALOG", "USED");
    bool gaps = hasGaps(prev);
    if (!wild && how == 2 && n == 0 && rng.chance(92)) return false;       // extending an empty data set makes frame 0 a gap (recorded known finding); keep it rare
    int dev = 0;
    int forceSub = -1;
    if (!wild && aused > 0 && prev.h.sub == 0) { if (rng.chance(55)) return false; forceSub = rng.range(1, 2); }   // channels declared but the header ratio is 0 (no analog rate, or a rate below half the point rate)   // channels declared but no analog rate yet: the README frame would carry no sub-frames (undocumented shape)
    bool contentless = false;
    if (used == 0 && aused == 0 && !wild && how == 0 && (o.profile == "c06" || o.profile == "c08") && rng.chance(50)) contentless = true;   // place-holder frames on an object with nothing declared (any rate): "every frame content" includes none
    else if (used == 0 && aused == 0) {
        if (float0(prev, "POINT", "RATE") == 0.0f && !wild) return false;
        if (prev.h.sub > 0 && how == 0 && o.profile == "c08" && rng.chance(40)) contentless = true;   // the README frame of an object with nothing declared: empty sub-frames only
        else if (n == 0) dev = 14; else return false;
    }
    if (!contentless && rng.chance(wild ? 45 : 28)) { static const int doc[] = {1, 2, 3, 4, 5, 6, 7}; static const int wl[] = {8, 9, 10, 11, 12, 13, 14};
        dev = (wild && rng.chance(50)) ? wl[rng.below(7)] : doc[rng.below(7)];
        if (!wild && o.profile == "c06" && used >= 2 && rng.chance(25)) dev = 10;     // all declared points present, listed in another order: accepted by the documented checks, must be stored as given
        if (!wild && used == 0 && dev >= 1 && dev <= 4) dev = 0; if (!wild && aused == 0 && (dev == 5 || dev == 6)) dev = 0; if (used == 0 && aused == 0 && n == 0 && !wild) dev = 14; }
    if (forceSub >= 0 && dev != 0 && dev != 5 && dev != 6) dev = rng.chance(50) ? 5 : 6;
    bool undeclaredPlusBadAnalogs = (!wild && used == 0 && aused > 0 && prev.h.sub > 0 && n == 0 && float0(prev, "POINT", "RATE") != 0.0f && rng.chance(12));   // new points arrive together with a refused analog part
    if (!wild && how == 1 && used == 0 && aused > 0 && rng.chance(15)) dev = 14;                       // undeclared points arrive through a replace
    if (!wild && how == 1 && n == 1 && prev.h.sub > 0 && rng.chance(10)) dev = rng.chance(50) ? 8 : 9;  // the only stored frame is replaced by one with another sub-frame count
    if (undeclaredPlusBadAnalogs) dev = rng.chance(50) ? 5 : 6;
    if (contentless) { dev = 0; offSpec = true; }   // the header cannot count frames that hold nothing: C05 is not judged in such histories
    std::string devName; SFrame sub; Frame f = buildFrame(dev, &devName, &sub, forceSub);
    if (forceSub >= 0) devName += "+forced_subframes";
    if (undeclaredPlusBadAnalogs) { std::vector<std::string> none; size_t k = (size_t)rng.range(1, 3); Points extra; for (size_t q = 0; q < k; ++q) { SPoint ip; std::string nm = "U" + std::to_string((unsigned long long)q) + "_" + std::to_string((long long)rng.below(1000)); extra.point(mkPoint(*this, nm, &ip)); sub.pts.push_back(ip); } f.add(extra); devName += "+undeclared_points"; }
    size_t idxArg = SIZE_MAX, target;
    std::string opn;
    if (how == 0) { opn = "frame_append"; target = n; }
    else if (how == 1) { idxArg = rng.below(n); target = idxArg; opn = "frame_replace"; }
    else { idxArg = n + (rng.chance(50) ? 0 : (size_t)rng.range(1, 6)); target = idxArg; opn = idxArg == n ? "frame_at_count" : "frame_extend"; }
    (void)gaps;
    { SFrame back = takeFrame(f); bump("c06_caller_frame_checked"); if (back != sub && !wild) { Snap x, y; x.frames.push_back(sub); y.frames.push_back(back); std::vector<std::string> dd = diff(x, y, 3); std::string all; for (size_t i = 0; i < dd.size(); ++i) if (dd[i].compare(0, 5, "frame") == 0) all += dd[i];
        log.viol("C06", std::string("caller_frame_loses_content/") + (all.find("residual") != std::string::npos ? "residual" : "other"), "a frame assembled from points/channels does not hold the given values: " + all); } }
    std::ostringstream a; a << "idx=" << (idxArg == SIZE_MAX ? std::string("append") : std::to_string((unsigned long long)idxArg)) << " dev=" << devName << " " << frameSig(sub) << " n=" << n;
    log.pre("frame"); Outcome oc; VF_TRY(oc, obj->frame(f, idxArg));
    log.ev(opn, a.str(), oc);
    bump("op:" + opn); bump("dev:" + devName + (oc.threw ? ":refused" : ":accepted"));
    checkC07Frame(opn, sub, oc);
    if (!oc.threw) {
        Snap cur = take(*obj);
        if (!wild) checkFrameRelation(opn, cur, target, how == 0, sub, idxArg);
        if (callerFrames.size() < 4) { callerFrames.push_back(f); callerFrameTarget.push_back((int)target); }
        else { size_t k = rng.below(callerFrames.size()); callerFrames[k] = f; callerFrameTarget[k] = (int)target; }
    }
    afterMutator(opn, oc);
    return true;
}

// Hand over the very same caller frame object again (README: "Why not adding a second frame?")
bool Hist::opResubmit() {
    if (callerFrames.empty()) return false;
    size_t k = rng.below(callerFrames.size());
    Frame& f = callerFrames[k];
    size_t n = prev.frames.size();
    bool append = rng.chance(60) || n == 0; size_t idxArg = append ? SIZE_MAX : rng.below(n); size_t target = append ? n : idxArg;
    SFrame sub = takeFrame(f);
    std::ostringstream a; a << "caller=" << k << " idx=" << (append ? std::string("append") : std::to_string((unsigned long long)idxArg)) << " " << frameSig(sub);
    log.pre("frame"); Outcome oc; VF_TRY(oc, obj->frame(f, idxArg));
    std::string opn = append ? "resubmit_append" : "resubmit_replace";
    log.ev(opn, a.str(), oc); bump("op:" + opn);
    checkC07Frame(opn, sub, oc);
    if (!oc.threw) { Snap cur = take(*obj); if (!wild) checkFrameRelation(opn, cur, target, append, sub, idxArg); callerFrameTarget[k] = (int)target; }
    afterMutator(opn, oc);
    return true;
}

// Mutate a caller-side frame after hand-over: the object must not change (C08).
bool Hist::opMutateCaller() {
    if (callerFrames.empty()) return false;
    size_t k = rng.below(callerFrames.size());
    Frame& f = callerFrames[k];
    int how = rng.range(0, 6); std::string hn;
    try {
        switch (how) {
            case 6: hn = "Frame::add(same_points,no_analogs)"; if (f.points().nbPoints() == 0 || f.analogs().nbSubframes() == 0) return false;
                { Points p; for (size_t i = 0; i < f.points().nbPoints(); ++i) p.point(f.points().point(i)); f.add(p, Analogs());
                  bump("c06_caller_frame_checked"); if (f.analogs().nbSubframes() != 0 && !wild) { log.viol("C08", "caller_frame_keeps_dropped_content", "Frame::add(points, Analogs()) on a frame that held analogs: the frame still has " + std::to_string((unsigned long long)f.analogs().nbSubframes()) + " sub-frame(s)"); log.viol("C06", "caller_frame_loses_content/kept_old_analogs", "Frame::add(points, Analogs()) left the old analogs in the frame"); } } break;
            case 0: hn = "points_nonConst.point_nonConst.xyz"; if (f.points().nbPoints() == 0) return false; { Point& p = f.points_nonConst().point_nonConst(rng.below(f.points().nbPoints())); p.x(bitsf(genFloatBits(rng, false)) + 1.f); p.y(-7777.f); p.residual(42.f); } break;
            case 1: hn = "points_nonConst.point(add)"; { Point p; p.name("caller_side_extra"); p.x(1); p.y(2); p.z(3); f.points_nonConst().point(p); } break;
            case 2: hn = "analogs_nonConst.channel_nonConst.data"; if (f.analogs().nbSubframes() == 0 || f.analogs().subframe(0).nbChannels() == 0) return false; f.analogs_nonConst().subframe_nonConst(0).channel_nonConst(0).data(-31337.f); break;
            case 3: hn = "analogs_nonConst.subframe(add)"; { SubFrame sf; Channel c; c.name("caller_side_ch"); c.data(5); sf.channel(c); f.analogs_nonConst().subframe(sf); } break;
            case 4: hn = "Frame::add(points)"; { Points p; Point q; q.name("replaced_all"); q.x(9); p.point(q); f.add(p); } break;
            default: hn = "points_nonConst.point_nonConst.name"; if (f.points().nbPoints() == 0) return false; f.points_nonConst().point_nonConst(0).name("renamed_by_caller"); break;
        }
    } catch (std::exception& e) { return false; }
    Outcome oc; log.ev("mutate_caller_frame", "caller=" + std::to_string((unsigned long long)k) + " how=" + hn, oc); bump("op:mutate_caller_frame"); bump("c08_mutations");
    Snap cur = take(*obj);
    if (cur != prev) { std::vector<std::string> d = diff(prev, cur, 4); std::string all; for (size_t i = 0; i < d.size(); ++i) all += d[i] + "; ";
        log.viol("C08", "caller_mutation_visible/" + hn, "object changed after the caller edited its own frame: " + all); }
    prev = cur;
    // the caller object no longer equals what was handed over; it stays in the pool for later re-submission
    return true;
}

// Shared by point(name) on data, point(frames): every frame gains exactly the new columns.
static void checkColumnRelation(Hist& h, const std::string& op, const Snap& cur, const std::vector<std::vector<SPoint> >& newPts, const std::vector<std::vector<std::vector<SChan> > >& newCh) {
    const Snap& p = h.prev;
    h.bump("c06_column_checked");
    if (cur.frames.size() != p.frames.size()) { h.log.viol("C06", "column/frame_count/" + op, "frame count changed"); return; }
    for (size_t f = 0; f < p.frames.size(); ++f) {
        SFrame want = p.frames[f];
        if (!newPts.empty()) for (size_t i = 0; i < newPts[f].size(); ++i) want.pts.push_back(newPts[f][i]);
        if (!newCh.empty()) for (size_t s = 0; s < want.subs.size() && s < newCh[f].size(); ++s) for (size_t k = 0; k < newCh[f][s].size(); ++k) want.subs[s].push_back(newCh[f][s][k]);
        if (want != cur.frames[f]) {
            std::ostringstream d; d << "frame " << f << ": had " << frameSig(p.frames[f]) << ", now " << frameSig(cur.frames[f]) << ", expected " << frameSig(want);
            size_t wantP = want.pts.size(), gotP = cur.frames[f].pts.size(), wantC = want.subs.empty() ? 0 : want.subs[0].size(), gotC = cur.frames[f].subs.empty() ? 0 : cur.frames[f].subs[0].size();
            std::string kind = (wantP != gotP || wantC != gotC) ? "not_exactly_one_column" : "content";
            h.log.viol("C06", "column/" + kind + "/" + op, d.str());
            if (kind == "not_exactly_one_column") h.log.viol("C08", "column/added_not_once/" + op, d.str());
            return;
        }
    }
}

// Read-modify-write: copy a stored frame out, replace its points or its analogs on the copy, hand it back at the same index.
bool Hist::opReadModifyWrite() {
    size_t n = prev.frames.size(); if (n == 0) return false;
    size_t i = rng.below(n); const SFrame& old = prev.frames[i]; if (old.empty()) return false;
    bool replAnalogs = !old.subs.empty() && (old.pts.empty() || rng.chance(50));
    if (!replAnalogs && old.pts.empty()) return false;
    Frame f(obj->data().frame(i));                       // copy of the stored frame (shares nothing the library promises to keep private)
    SFrame want = old;
    if (replAnalogs) { Analogs an; want.subs.clear(); for (size_t s = 0; s < old.subs.size(); ++s) { SubFrame sf; std::vector<SChan> ws; for (size_t k = 0; k < old.subs[s].size(); ++k) { Channel c; c.name(old.subs[s][k].name); SChan w; w.name = old.subs[s][k].name; w.v = genFloatBits(rng, specialFloats); c.data(bitsf(w.v)); sf.channel(c); ws.push_back(w); } an.subframe(sf); want.subs.push_back(ws); } f.add(an); }
    else { Points pts; want.pts.clear(); for (size_t k = 0; k < old.pts.size(); ++k) { SPoint ip; pts.point(mkPoint(*this, old.pts[k].name, &ip)); want.pts.push_back(ip); } f.add(pts); }
    log.pre("frame"); Outcome oc; VF_TRY(oc, obj->frame(f, i));
    std::string opn = replAnalogs ? "rmw_replace_analogs" : "rmw_replace_points";
    log.ev(opn, "idx=" + std::to_string((unsigned long long)i) + " " + frameSig(want), oc); bump("op:" + opn);
    checkC07Frame(opn, want, oc);
    if (!oc.threw && !wild) { Snap cur = take(*obj); checkFrameRelation(opn, cur, i, false, want, i); }
    afterMutator(opn, oc);
    return true;
}

// A frame OF THE OBJECT ITSELF handed to frame() by reference (append, replace another index, extend): valid use, the reference must not dangle.
bool Hist::opSelfFrame() {
    size_t n = prev.frames.size(); if (n == 0) return false;
    size_t i = rng.below(n); if (prev.frames[i].empty() && !wild) return false;
    int how = rng.range(0, 2); size_t idxArg = SIZE_MAX, target = n;
    if (how == 1) { idxArg = rng.below(n); target = idxArg; } else if (how == 2) { idxArg = n + (size_t)rng.range(0, 40); target = idxArg; }
    if (!wild && how == 2 && idxArg > n && rng.chance(60)) { idxArg = n; target = n; }
    SFrame want = prev.frames[i];
    std::string opn = how == 0 ? "self_frame_append" : how == 1 ? "self_frame_replace" : "self_frame_extend";
    log.pre("frame", opn); Outcome oc; VF_TRY(oc, obj->frame(obj->data().frame(i), idxArg));
    log.ev(opn, "from=" + std::to_string((unsigned long long)i) + " idx=" + (idxArg == SIZE_MAX ? std::string("append") : std::to_string((unsigned long long)idxArg)) + " n=" + std::to_string((unsigned long long)n), oc); bump("op:" + opn);
    checkC07Frame(opn, want, oc);
    if (!oc.threw && !wild) { Snap cur = take(*obj); checkFrameRelation(opn, cur, target, how == 0, want, idxArg); }
    afterMutator(opn, oc);
    return true;
}

// Re-rating a filled data set the consistent way: ANALOG:RATE is changed to another multiple of POINT:RATE and EVERY frame is then replaced by
// one with the new number of sub-frames.  The intermediate states are not judged (mixed sub-frame counts); the final one is (C05 now, C01 at the next save).
bool Hist::opReRate() {
    size_t n = prev.frames.size(); if (wild || n == 0 || n > 8 || hasGaps(prev) || !subsUniform(prev) || offSpec || fileOffSpec) return false;
    long aused = int0(prev, "ANALOG", "USED"); float pr = float0(prev, "POINT", "RATE"); size_t s = prev.h.sub;
    if (aused < 1 || pr == 0.f || s < 1) return false;
    { // a loaded object may list more labels than it has points: every frame is then (rightly, label missing) refused, nothing to re-rate
      std::vector<std::string> labels = labelsOf(prev, "POINT"); long used = int0(prev, "POINT", "USED");
      for (size_t f = 0; f < n; ++f) { if (used != 0 && prev.frames[f].pts.size() != (size_t)used) return false;
          for (size_t i = 0; i < labels.size(); ++i) { bool found = false; for (size_t k = 0; k < prev.frames[f].pts.size(); ++k) if (prev.frames[f].pts[k].name == labels[i]) found = true; if (!found) return false; } } }
    size_t s2 = (size_t)rng.range(1, 6); if (s2 == s) s2 = s + 1;
    Param p("RATE"); p.set(std::vector<float>(1, pr * (float)s2)); p.lock();
    log.pre("parameter", "rerate"); Outcome oc; VF_TRY(oc, obj->parameter("ANALOG", p));
    log.ev("rerate_set_analog_rate", "sub " + std::to_string((unsigned long long)s) + " -> " + std::to_string((unsigned long long)s2), oc); bump("op:rerate");
    if (oc.threw) { log.viol("C09", "param/valid_refused/rerate/" + oc.cls, oc.what); prev = take(*obj); return true; }
    prev = take(*obj);
    for (size_t i = 0; i < n; ++i) {
        std::string dn; SFrame want; Frame fr = buildFrame(0, &dn, &want, (int)s2);
        log.pre("frame", "rerate"); Outcome fo; VF_TRY(fo, obj->frame(fr, i));
        log.ev("rerate_replace_frame", "idx=" + std::to_string((unsigned long long)i) + " " + frameSig(want), fo);
        if (fo.threw) { log.viol("C07", "frame/valid_refused/rerate/" + fo.cls, "replacing frame " + std::to_string((unsigned long long)i) + " with the re-rated shape was refused: " + fo.what); prev = take(*obj); offSpec = true; return true; }
        Snap cur = take(*obj);
        if (i < cur.frames.size() && cur.frames[i] != want) log.viol("C06", "frame/target_content/rerate", "frame " + std::to_string((unsigned long long)i) + " does not hold the re-rated content");
        prev = cur;
    }
    checkC05(prev, "rerate_done");
    return true;
}

bool Hist::opDeclarePoint() {
    std::vector<std::string> labels = labelsOf(prev, "POINT");
    size_t n = prev.frames.size();
    bool overGaps = n > 0 && hasGaps(prev);
    if (!wild && overGaps && !rng.chance(35)) return false;
    if ((labels.size() >= 12 || prev.h.nPts >= 200) && !wild) return false;   // (more than 255 points is beyond the format: C17's business)
    bool dup = !labels.empty() && rng.chance(n > 0 ? 15 : (wild ? 15 : 0));   // duplicate declaration on an empty data set is undocumented -> wild only
    std::string name = dup ? labels[rng.below(labels.size())] : freshName("P", labels);
    bool padded = !dup && rng.chance(15);
    std::string arg = padded ? name + std::string((size_t)rng.range(1, 9), ' ') : name;   /* up to more blanks than characters */
    if (!dup && !wild && o.profile == "c10" && rng.chance(3)) { name = freshName("P", labels) + std::string((size_t)rng.range(240, 300), 'w'); arg = name; padded = false; beyondInt16 = true; }   // a name longer than a file can hold (255): fine in memory, saving is C17's business
    { bool haveEmpty = false; for (size_t i = 0; i < labels.size(); ++i) if (labels[i].empty()) haveEmpty = true;
      if (!dup && !wild && !haveEmpty && n == 0 && o.profile == "c11" && rng.chance(5)) { name = ""; arg = std::string((size_t)rng.range(1, 4), ' '); padded = true; } }   // a name of blanks only: the trimmed name is the empty one
    log.pre("point"); Outcome oc; VF_TRY(oc, obj->point(arg));
    log.ev("declare_point", "name=\"" + esc(arg) + "\" frames=" + std::to_string((unsigned long long)n), oc); bump("op:declare_point");
    if (!wild) {
        if (n > 0) {
            bump("c07_column_calls");
            if (dup && !oc.threw) log.viol("C07", "column/existing_name_accepted/declare_point", "point(\"" + esc(arg) + "\") accepted although the name exists");
            if (dup && oc.threw && !satisfies(oc.cls, "invalid_argument")) log.viol("C07", "column/wrong_class/existing_name/" + oc.cls, "declare_point refused with " + oc.cls);
            if (!dup && oc.threw) log.viol("C07", "column/valid_refused/declare_point/" + oc.cls, "point(\"" + esc(arg) + "\") refused: " + oc.what);
        } else if (!dup && oc.threw) log.viol("C07", "declare/valid_refused/declare_point/" + oc.cls, "point(\"" + esc(arg) + "\") on a data set without frames refused: " + oc.what);
        if (!oc.threw) {
            Snap cur = take(*obj);
            if (n > 0) { std::vector<std::vector<SPoint> > np(n); SPoint z; z.name = trimmed(arg); z.v[0] = z.v[1] = z.v[2] = z.v[3] = 0; for (size_t f = 0; f < n; ++f) np[f].push_back(z);
                checkColumnRelation(*this, "declare_point", cur, np, std::vector<std::vector<std::vector<SChan> > >()); }
            // C11 clause: stored and found under the trimmed name
            std::vector<std::string> nl = labelsOf(cur, "POINT"); bump("c11_trim_checked");
            if (!external && (nl.size() != labels.size() + 1 || nl.back() != trimmed(arg))) log.viol("C11", std::string("trailing_spaces/point_label/") + (padded ? "padded" : "plain"), "after point(\"" + esc(arg) + "\") POINT:LABELS ends with \"" + (nl.empty() ? std::string("<none>") : esc(nl.back())) + "\" (" + std::to_string((unsigned long long)nl.size()) + " labels, had " + std::to_string((unsigned long long)labels.size()) + ")");
            if (n > 0) { Outcome lo; size_t found = SIZE_MAX; VF_TRY(lo, found = obj->data().frame(0).points().pointIdx(trimmed(arg))); if (lo.threw || found != cur.frames[0].pts.size() - 1) log.viol("C11", "trailing_spaces/point_lookup", "pointIdx(trimmed) after declare failed"); }
        }
    }
    if (!oc.threw && overGaps) columnOverGaps = true;
    afterMutator("declare_point", oc);
    return true;
}

bool Hist::opDeclareChannel() {
    std::vector<std::string> labels = labelsOf(prev, "ANALOG");
    size_t n = prev.frames.size();
    bool chOverGaps = n > 0 && hasGaps(prev);
    if (!wild && n > 0 && (prev.h.sub == 0 || (!subsUniform(prev) && !chOverGaps))) return false;
    if (!wild && chOverGaps && !rng.chance(30)) return false;       // a gap frame has no sub-frames to receive a channel: what happens is documented neither way (C07 not judged), but a throw must leave the object unchanged
    if ((labels.size() >= 8 || prev.h.nAnalogs >= 200) && !wild) return false;
    bool dup = !labels.empty() && rng.chance(n > 0 ? 15 : (wild ? 15 : 0));
    std::string name = dup ? labels[rng.below(labels.size())] : freshName("A", labels);
    bool padded = !dup && rng.chance(15);
    std::string arg = padded ? name + std::string((size_t)rng.range(1, 9), ' ') : name;   /* up to more blanks than characters */
    log.pre("analog"); Outcome oc; VF_TRY(oc, obj->analog(arg));
    log.ev("declare_channel", "name=\"" + esc(arg) + "\" frames=" + std::to_string((unsigned long long)n), oc); bump("op:declare_channel");
    if (!wild && chOverGaps) { if (!oc.threw) offSpec = true; }
    else if (!wild) {
        if (n > 0) {
            bump("c07_column_calls");
            if (dup && !oc.threw) log.viol("C07", "column/existing_name_accepted/declare_channel", "analog(\"" + esc(arg) + "\") accepted although the name exists");
            if (dup && oc.threw && !satisfies(oc.cls, "invalid_argument")) log.viol("C07", "column/wrong_class/existing_name/" + oc.cls, "declare_channel refused with " + oc.cls);
            if (!dup && oc.threw) log.viol("C07", "column/valid_refused/declare_channel/" + oc.cls, "analog(\"" + esc(arg) + "\") refused: " + oc.what);
        } else if (!dup && oc.threw) log.viol("C07", "declare/valid_refused/declare_channel/" + oc.cls, "analog(\"" + esc(arg) + "\") on a data set without frames refused: " + oc.what);
        if (!oc.threw) {
            Snap cur = take(*obj);
            if (n > 0) { std::vector<std::vector<std::vector<SChan> > > nc(n); SChan z; z.name = trimmed(arg); z.v = 0;
                for (size_t f = 0; f < n; ++f) { nc[f].resize(prev.frames[f].subs.size()); for (size_t s = 0; s < nc[f].size(); ++s) nc[f][s].push_back(z); }
                checkColumnRelation(*this, "declare_channel", cur, std::vector<std::vector<SPoint> >(), nc); }
            std::vector<std::string> nl = labelsOf(cur, "ANALOG"); bump("c11_trim_checked");
            if (!external && (nl.size() != labels.size() + 1 || nl.back() != trimmed(arg))) log.viol("C11", std::string("trailing_spaces/channel_label/") + (padded ? "padded" : "plain"), "after analog(\"" + esc(arg) + "\") ANALOG:LABELS ends with \"" + (nl.empty() ? std::string("<none>") : esc(nl.back())) + "\"");
        }
    }
    afterMutator("declare_channel", oc);
    return true;
}

bool Hist::opPointColumn() {
    size_t n = prev.frames.size();
    bool overGaps = hasGaps(prev);
    if (!wild && overGaps && !rng.chance(35)) return false;
    std::vector<std::string> labels = labelsOf(prev, "POINT");
    if ((labels.size() >= 14 || prev.h.nPts >= 200) && !wild) return false;
    // deviations: 0 valid, 1 frames-1, 2 frames+1, 3 no frames supplied, 4 no points, 5 existing name, 6 two columns/second duplicates an existing, 7 two columns/second duplicates the first, (wild) 8 later frame has fewer points
    int dev = 0; if (rng.chance(35) || n == 0) { dev = rng.range(1, 9); if ((dev == 8 || dev == 9) && n < 2) dev = 7; }   // 8 = ragged: documented neither way, only C10 (unchanged after a throw) is judged
    size_t k = (dev == 6 || dev == 7 || dev == 9 || rng.chance(25)) ? 2 : 1;
    bool thirdDup = (dev == 7 && rng.chance(50)); if (thirdDup) k = 3;      // N1, N2, N1: "a name already exists" also when the repeat is not adjacent
    std::vector<std::string> names; std::vector<std::string> taken = labels;
    for (size_t i = 0; i < k; ++i) { names.push_back(freshName("C", taken)); taken.push_back(names.back()); }
    std::string altName = freshName("Z", taken);
    if (dev == 5 && !labels.empty()) names[0] = labels[rng.below(labels.size())]; else if (dev == 5) dev = 0;
    if (dev == 6 && !labels.empty()) names[1] = labels[rng.below(labels.size())]; else if (dev == 6) dev = 7;
    if (dev == 7) names[thirdDup ? 2 : 1] = names[0];
    size_t nf = n; if (dev == 1) { if (n == 0) dev = 3; else nf = n - 1; } if (dev == 2) nf = n + 1; if (dev == 3) nf = 0;
    if (n == 0 && dev == 0) dev = 3;
    // two ways a caller builds the column: frame by frame, or a vector of n copies of one empty frame filled in place (the copies of a
    // Frame share their payload until add() gives each its own)
    bool inPlace = rng.chance(40);
    std::vector<Frame> frames; if (inPlace) frames.assign(nf, Frame()); std::vector<std::vector<SPoint> > np(nf);
    for (size_t f = 0; f < nf; ++f) {
        Points pts; size_t kk = (dev == 4) ? 0 : k; if (dev == 8 && f == nf - 1 && nf > 1) kk = k - 1;
        for (size_t i = 0; i < kk; ++i) { SPoint ip; pts.point(mkPoint(*this, (dev == 9 && f == nf - 1 && i == 1) ? altName : names[i], &ip)); np[f].push_back(ip); }
        if (inPlace) frames[f].add(pts); else { Frame fr; fr.add(pts); frames.push_back(fr); }
    }
    if (!wild) for (size_t f = 0; f < nf; ++f) { std::vector<SPoint> back = takeFrame(frames[f]).pts; bump("c06_caller_frame_checked"); if (back != np[f]) { log.viol("C06", "caller_frame_loses_content/column", std::string("frame ") + std::to_string((unsigned long long)f) + " of a point column " + (inPlace ? "(vector of copies filled in place) " : "") + "does not hold the points it was given"); break; } }
    static const char* dn[] = {"valid", "frames-1", "frames+1", "no_frames", "no_points", "existing_name", "second_existing", "second_duplicates_first", "ragged", "renamed_in_last_frame"};
    std::ostringstream a; a << "dev=" << dn[dev] << " columns=" << k << " supplied=" << nf << " n=" << n << (inPlace ? " built=in_place" : "");
    log.pre("point"); Outcome oc; VF_TRY(oc, obj->point(frames));
    log.ev("point_column", a.str(), oc); bump("op:point_column"); bump(std::string("coldev:") + dn[dev] + (oc.threw ? ":refused" : ":accepted"));
    if (!wild) {
        bump("c07_column_calls");
        bool defect = dev >= 1 && dev <= 7;
        if (defect && !oc.threw) log.viol("C07", std::string("column/defect_accepted/point_column/") + dn[dev], std::string("point(frames) accepted although ") + dn[dev]);
        else if (defect && !satisfies(oc.cls, "invalid_argument")) log.viol("C07", std::string("column/wrong_class/point_column/") + dn[dev] + "/" + oc.cls, "refused with " + oc.cls + ": " + oc.what);
        else if (!defect && dev == 0 && oc.threw) log.viol("C07", "column/valid_refused/point_column/" + oc.cls, "valid point column refused: " + oc.what);
        if (!oc.threw && dev == 0) { Snap cur = take(*obj); checkColumnRelation(*this, "point_column", cur, np, std::vector<std::vector<std::vector<SChan> > >()); }
        if (!oc.threw && (dev == 8 || dev == 9)) offSpec = true;
    }
    if (!oc.threw && overGaps) columnOverGaps = true;
    afterMutator("point_column", oc);
    return true;
}

bool Hist::opChannelColumn() {
    size_t n = prev.frames.size(); size_t nsub = prev.h.sub;
    if (nsub > 5000) return false;     // (see opSetRate: no frames are built in such a history)
    bool emptyData = (n == 0);     // nothing stored yet: only the documented refusal 'nothing supplied' can be exercised
    bool chOverGaps = !emptyData && hasGaps(prev);
    if (!wild && !emptyData && (nsub == 0 || (!subsUniform(prev) && !chOverGaps))) return false;
    if (!wild && chOverGaps && !rng.chance(30)) return false;
    std::vector<std::string> labels = labelsOf(prev, "ANALOG");
    if ((labels.size() >= 10 || prev.h.nAnalogs >= 200) && !wild) return false;
    // 0 valid, 1 frames-1, 2 frames+1, 3 sub-1, 4 sub+1, 5 no channels, 6 existing name, 7 second duplicates existing, 8 second duplicates first, (wild) 9 no frames
    int dev = 0; if (rng.chance(35)) dev = rng.range(1, wild ? 9 : 8);
    bool ragged = !emptyData && dev == 0 && n >= 1 && nsub >= 2 && rng.chance(12);   // one later sub-frame one channel short: documented neither way, only C10 is judged
    bool raggedFrame = !ragged && !emptyData && dev == 0 && n >= 2 && rng.chance(10);  // ... or every sub-frame of a LATER frame one channel short (needs 2 columns)
    if (emptyData && !wild) dev = 9;
    size_t k = (dev == 7 || dev == 8 || raggedFrame || rng.chance(25)) ? 2 : 1;
    std::vector<std::string> names; std::vector<std::string> taken = labels;
    for (size_t i = 0; i < k; ++i) { names.push_back(freshName("K", taken)); taken.push_back(names.back()); }
    if (dev == 6 && !labels.empty()) names[0] = labels[rng.below(labels.size())]; else if (dev == 6) dev = 0;
    if (dev == 7 && !labels.empty()) names[1] = labels[rng.below(labels.size())]; else if (dev == 7) dev = 8;
    if (dev == 8) names[1] = names[0];
    size_t nf = n; if (dev == 1) { if (n <= 1) dev = 0; else nf = n - 1; } if (dev == 2) nf = n + 1; if (dev == 9) nf = 0;
    size_t ns = nsub; if (dev == 3) { if (nsub <= 1 && !wild) dev = 4; else ns = nsub ? nsub - 1 : 0; } if (dev == 4) ns = nsub + 1;
    // "the number of sub-frames supplied differs from the data set" also when only ONE supplied frame (not the first) deviates
    bool lateOnly = (dev == 3 || dev == 4) && nf >= 2 && rng.chance(45); size_t lateFrame = lateOnly ? 1 + rng.below(nf - 1) : 0;
    bool inPlace = rng.chance(40);      // (see opPointColumn)
    std::vector<Frame> frames; if (inPlace) frames.assign(nf, Frame()); std::vector<std::vector<std::vector<SChan> > > nc(nf);
    for (size_t f = 0; f < nf; ++f) {
        Analogs an;
        size_t nsHere = (lateOnly && f != lateFrame) ? nsub : ns;
        for (size_t s = 0; s < nsHere; ++s) { SubFrame sf; size_t kk = dev == 5 ? 0 : k; if (ragged && f == nf - 1 && s == ns - 1) kk = k - 1; if (raggedFrame && f == nf - 1) kk = k - 1; for (size_t i = 0; i < kk; ++i) { Channel c; c.name(names[i]); c.data(bitsf(genFloatBits(rng, specialFloats))); sf.channel(c); } an.subframe(sf); }
        if (inPlace) { frames[f].add(an); nc[f] = takeFrame(frames[f]).subs; } else { Frame fr; fr.add(an); frames.push_back(fr); nc[f] = takeFrame(fr).subs; }
    }
    if (!wild) for (size_t f = 0; f < nf; ++f) { bump("c06_caller_frame_checked"); if (takeFrame(frames[f]).subs != nc[f]) { log.viol("C06", "caller_frame_loses_content/column", std::string("frame ") + std::to_string((unsigned long long)f) + " of a channel column " + (inPlace ? "(vector of copies filled in place) " : "") + "no longer holds the samples it was given"); break; } }
    static const char* dn[] = {"valid", "frames-1", "frames+1", "sub-1", "sub+1", "no_channels", "existing_name", "second_existing", "second_duplicates_first", "no_frames"};
    std::ostringstream a; a << "dev=" << (ragged ? "ragged_subframe" : raggedFrame ? "ragged_last_frame" : dn[dev]) << (lateOnly ? "@one_later_frame" : "") << " columns=" << k << " supplied=" << nf << "x" << ns << " n=" << n << " sub=" << nsub;
    log.pre("analog"); Outcome oc; VF_TRY(oc, obj->analog(frames));
    log.ev("channel_column", a.str(), oc); bump("op:channel_column"); bump(std::string("coldev:") + dn[dev] + (oc.threw ? ":refused" : ":accepted"));
    if (!wild && chOverGaps) { if (!oc.threw) offSpec = true; }
    else if (!wild) {
        bump("c07_column_calls");
        bool defect = (dev >= 1 && dev <= 8) || (dev == 9 && emptyData);
        if (defect && !oc.threw) log.viol("C07", std::string("column/defect_accepted/channel_column/") + dn[dev] + (lateOnly ? "@one_later_frame" : ""), std::string("analog(frames) accepted although ") + dn[dev] + (lateOnly ? " in one of the later supplied frames" : ""));
        else if (defect && !satisfies(oc.cls, "invalid_argument")) log.viol("C07", std::string("column/wrong_class/channel_column/") + dn[dev] + (lateOnly ? "@one_later_frame" : "") + "/" + oc.cls, "refused with " + oc.cls + ": " + oc.what);
        else if (dev == 0 && !ragged && !raggedFrame && oc.threw) log.viol("C07", "column/valid_refused/channel_column/" + oc.cls, "valid channel column refused: " + oc.what);
        if (!oc.threw && dev == 0 && !ragged && !raggedFrame) { Snap cur = take(*obj); checkColumnRelation(*this, "channel_column", cur, std::vector<std::vector<SPoint> >(), nc); }
        if (!oc.threw && (ragged || raggedFrame)) offSpec = true;
    }
    afterMutator("channel_column", oc);
    return true;
}

}  // namespace vf
