#include "hist.h"
#include <algorithm>
#include <sstream>
#include <set>
#include <unistd.h>

namespace vf {

static std::string lowerS(std::string s) { for (size_t i = 0; i < s.size(); ++i) s[i] = (char)tolower((unsigned char)s[i]); return s; }
static std::string upperS(std::string s) { for (size_t i = 0; i < s.size(); ++i) s[i] = (char)toupper((unsigned char)s[i]); return s; }

static size_t pickIndex(Rng& r, size_t size, bool* inRange) {
    int k = r.range(0, 9);
    size_t i;
    if (k < 5 && size > 0) { i = r.below(size); }
    else if (k == 5 && size > 0) i = size - 1;
    else if (k == 6) i = size;
    else if (k == 7) i = size + 1;
    else if (k == 8) i = (size_t)1 << 32;
    else i = k == 9 ? SIZE_MAX : size;
    *inRange = i < size;
    return i;
}

// variants of a name that must NOT match unless an element with exactly that name exists
static std::string nameVariant(Rng& r, const std::string& n, int* kind) {
    int k = r.range(0, 6); *kind = k;
    switch (k) { case 0: return n; case 1: return lowerS(n) == n ? upperS(n) : lowerS(n); case 2: return n + " "; case 3: return n + "_absent"; case 5: return n + "\t\r\n"[r.below(3)]; case 6: return n.empty() ? n : n.substr(0, n.size() - 1); default: return ""; }
}

template <class Names> static long firstExact(const Names& names, const std::string& n) { for (size_t i = 0; i < names.size(); ++i) if (names[i] == n) return (long)i; return -1; }

#define C11_POS(kind, size, accessExpr, equalExpr) do { \
    bool inR; size_t i = pickIndex(rng, (size), &inR); Outcome oc; bool same = true; \
    try { accessExpr; if (inR) same = (equalExpr); } catch (const std::exception& e__) { oc = classify(e__); } catch (...) { oc.threw = true; oc.cls = "non-std"; } \
    bump(std::string("c11:") + kind + (inR ? ":in_range" : ":beyond")); ++n; \
    if (inR && oc.threw) log.viol("C11", std::string("position/in_range_threw/") + kind + "/" + oc.cls, std::string(kind) + "(" + std::to_string((unsigned long long)i) + ") size " + std::to_string((unsigned long long)(size))); \
    else if (inR && !same) log.viol("C11", std::string("position/wrong_element/") + kind, std::string(kind) + "(" + std::to_string((unsigned long long)i) + ") is not the element at that position"); \
    else if (!inR && !oc.threw) log.viol("C11", std::string("position/beyond_size_returned/") + kind, std::string(kind) + "(" + std::to_string((unsigned long long)i) + ") size " + std::to_string((unsigned long long)(size)) + " returned"); \
    else if (!inR && !satisfies(oc.cls, "out_of_range")) log.viol("C11", std::string("position/beyond_size_wrong_class/") + kind + "/" + oc.cls, std::string(kind) + "(" + std::to_string((unsigned long long)i) + ") threw " + oc.cls); \
} while (0)

#define C11_NAME(kind, namesVec, query, accessExpr, equalExpr) do { \
    long want = firstExact(namesVec, query); Outcome oc; bool same = true; \
    try { accessExpr; if (want >= 0) same = (equalExpr); } catch (const std::exception& e__) { oc = classify(e__); } catch (...) { oc.threw = true; oc.cls = "non-std"; } \
    bump(std::string("c11:") + kind + (want >= 0 ? ":name_present" : ":name_absent")); ++n; \
    if (want >= 0 && oc.threw) log.viol("C11", std::string("name/present_threw/") + kind + "/" + oc.cls, std::string(kind) + "(\"" + esc(query) + "\")"); \
    else if (want >= 0 && !same) log.viol("C11", std::string("name/not_first_exact_match/") + kind, std::string(kind) + "(\"" + esc(query) + "\") expected position " + std::to_string(want)); \
    else if (want < 0 && !oc.threw) log.viol("C11", std::string("name/absent_returned/") + kind, std::string(kind) + "(\"" + esc(query) + "\") returned although no element has exactly that name"); \
    else if (want < 0 && !satisfies(oc.cls, "invalid_argument")) log.viol("C11", std::string("name/absent_wrong_class/") + kind + "/" + oc.cls, std::string(kind) + "(\"" + esc(query) + "\") threw " + oc.cls); \
} while (0)

bool Hist::opLookups() {
    const ezc3d::c3d& c = *obj; const Snap& s = prev;
    int n = 0, vk;
    int rounds = (int)o.geti("lookups", 10);
    for (int r = 0; r < rounds; ++r) {
        int kind = rng.range(0, 15);
        switch (kind) {
        case 0: C11_POS("data.frame", s.frames.size(), SFrame g = takeFrame(c.data().frame(i)), g == s.frames[i]); break;
        case 1: { if (s.frames.empty()) break; size_t f = rng.below(s.frames.size()); const SFrame& F = s.frames[f];
            C11_POS("points.point", F.pts.size(), const Point& p = c.data().frame(f).points().point(i); SPoint g; g.name = p.name(); g.v[0] = fbits(p.x()); g.v[1] = fbits(p.y()); g.v[2] = fbits(p.z()); g.v[3] = fbits(p.residual()), g == F.pts[i]); break; }
        case 2: { if (s.frames.empty()) break; size_t f = rng.below(s.frames.size()); const SFrame& F = s.frames[f]; std::vector<std::string> names; for (size_t k = 0; k < F.pts.size(); ++k) names.push_back(F.pts[k].name);
            std::string q = names.empty() ? std::string("nobody") : nameVariant(rng, names[rng.below(names.size())], &vk);
            size_t got = 0; C11_NAME("points.pointIdx", names, q, got = c.data().frame(f).points().pointIdx(q), (long)got == want);
            C11_NAME("points.point(name)", names, q, const Point& p = c.data().frame(f).points().point(q); SPoint g; g.name = p.name(); g.v[0] = fbits(p.x()); g.v[1] = fbits(p.y()); g.v[2] = fbits(p.z()); g.v[3] = fbits(p.residual()), g == F.pts[want]); break; }
        case 3: { if (s.frames.empty()) break; size_t f = rng.below(s.frames.size()); const SFrame& F = s.frames[f];
            C11_POS("analogs.subframe", F.subs.size(), const SubFrame& sf = c.data().frame(f).analogs().subframe(i); std::vector<SChan> g; for (size_t k = 0; k < sf.nbChannels(); ++k) { SChan x; x.name = sf.channel(k).name(); x.v = fbits(sf.channel(k).data()); g.push_back(x); }, g == F.subs[i]); break; }
        case 4: { if (s.frames.empty()) break; size_t f = rng.below(s.frames.size()); const SFrame& F = s.frames[f]; if (F.subs.empty()) break; size_t q = rng.below(F.subs.size());
            C11_POS("subframe.channel", F.subs[q].size(), const Channel& ch = c.data().frame(f).analogs().subframe(q).channel(i); SChan g; g.name = ch.name(); g.v = fbits(ch.data()), g == F.subs[q][i]); break; }
        case 5: { if (s.frames.empty()) break; size_t f = rng.below(s.frames.size()); const SFrame& F = s.frames[f]; if (F.subs.empty()) break; size_t q = rng.below(F.subs.size()); std::vector<std::string> names; for (size_t k = 0; k < F.subs[q].size(); ++k) names.push_back(F.subs[q][k].name);
            std::string nm = names.empty() ? std::string("nochannel") : nameVariant(rng, names[rng.below(names.size())], &vk);
            size_t got = 0; C11_NAME("subframe.channelIdx", names, nm, got = c.data().frame(f).analogs().subframe(q).channelIdx(nm), (long)got == want);
            C11_NAME("subframe.channel(name)", names, nm, const Channel& ch = c.data().frame(f).analogs().subframe(q).channel(nm); SChan g; g.name = ch.name(); g.v = fbits(ch.data()), g == F.subs[q][want]); break; }
        case 6: C11_POS("parameters.group", s.groups.size(), const ezc3d::ParametersNS::GroupNS::Group& G = c.parameters().group(i), G.name() == s.groups[i].name && G.nbParameters() == s.groups[i].params.size() && G.isLocked() == s.groups[i].lock && G.description() == s.groups[i].desc); break;
        case 7: { std::vector<std::string> names; for (size_t k = 0; k < s.groups.size(); ++k) names.push_back(s.groups[k].name);
            std::string nm = names.empty() ? std::string("nogroup") : nameVariant(rng, names[rng.below(names.size())], &vk);
            size_t got = 0; C11_NAME("parameters.groupIdx", names, nm, got = c.parameters().groupIdx(nm), (long)got == want);
            C11_NAME("parameters.group(name)", names, nm, const ezc3d::ParametersNS::GroupNS::Group& G = c.parameters().group(nm), G.name() == s.groups[want].name && G.nbParameters() == s.groups[want].params.size() && G.description() == s.groups[want].desc); break; }
        case 8: { if (s.groups.empty()) break; size_t g = rng.below(s.groups.size()); const SGroup& G = s.groups[g];
            C11_POS("group.parameter", G.params.size(), SParam got = takeParam(c.parameters().group(g).parameter(i)), got == G.params[i]); break; }
        case 9: { if (s.groups.empty()) break; size_t g = rng.below(s.groups.size()); const SGroup& G = s.groups[g]; std::vector<std::string> names; for (size_t k = 0; k < G.params.size(); ++k) names.push_back(G.params[k].name);
            std::string nm = names.empty() ? std::string("noparam") : nameVariant(rng, names[rng.below(names.size())], &vk);
            size_t got = 0; C11_NAME("group.parameterIdx", names, nm, got = c.parameters().group(g).parameterIdx(nm), (long)got == want);
            C11_NAME("group.parameter(name)", names, nm, SParam gp = takeParam(c.parameters().group(g).parameter(nm)), gp == G.params[want]); break; }
        case 10: C11_POS("header.eventsTime", s.h.etimes.size(), uint32_t t = fbits(c.header().eventsTime(i)), t == s.h.etimes[i]); break;
        case 11: C11_POS("header.eventsDisplay", s.h.edisp.size(), size_t t = c.header().eventsDisplay(i), t == s.h.edisp[i]); break;
        case 12: C11_POS("header.eventsLabel", s.h.elab.size(), std::string t = c.header().eventsLabel(i), t == s.h.elab[i]); break;
        case 15: { // the whole-container getters must agree with the positional ones
            bool same = true; std::string what;
            try {
                if (c.data().frames().size() != s.frames.size()) { same = false; what = "Data::frames"; }
                if (c.parameters().groups().size() != s.groups.size()) { same = false; what = "Parameters::groups"; }
                if (same && !s.groups.empty()) { size_t g = rng.below(s.groups.size()); const std::vector<Param>& v = c.parameters().group(g).parameters(); if (v.size() != s.groups[g].params.size()) { same = false; what = "Group::parameters"; } else if (!v.empty()) { size_t q = rng.below(v.size()); if (takeParam(v[q]) != s.groups[g].params[q]) { same = false; what = "Group::parameters[i]"; } } }
                if (same && !s.frames.empty()) { size_t f = rng.below(s.frames.size()); const SFrame& F = s.frames[f];
                    const std::vector<Point>& pv = c.data().frame(f).points().points(); if (pv.size() != F.pts.size()) { same = false; what = "Points::points"; }
                    else if (!pv.empty()) { size_t i = rng.below(pv.size()); std::vector<float> d4 = pv[i].data(); if (pv[i].name() != F.pts[i].name || d4.size() != 4 || fbits(d4[0]) != F.pts[i].v[0] || fbits(d4[3]) != F.pts[i].v[3]) { same = false; what = "Point::data"; } }
                    const std::vector<SubFrame>& sv = c.data().frame(f).analogs().subframes(); if (sv.size() != F.subs.size()) { same = false; what = "Analogs::subframes"; }
                    else if (!sv.empty()) { size_t q = rng.below(sv.size()); const std::vector<Channel>& cv = sv[q].channels(); if (cv.size() != F.subs[q].size()) { same = false; what = "SubFrame::channels"; } else if (!cv.empty()) { size_t k = rng.below(cv.size()); if (cv[k].name() != F.subs[q][k].name || fbits(cv[k].data()) != F.subs[q][k].v) { same = false; what = "SubFrame::channels[k]"; } } } }
            } catch (const std::exception& e) { same = false; what = std::string("exception ") + e.what(); }
            ++n; bump("c11:whole_container_getters");
            if (!same) log.viol("C11", "whole_container_getter_disagrees/" + what.substr(0, what.find(' ')), what);
            break; }
        case 13: { // caller-built containers may hold duplicate names: the FIRST exact match wins
            static const char* nm[] = {"dupA", "dupB", "dupA", "other", "dupB", "dupA"};
            Points P; SubFrame S; std::vector<std::string> names; size_t cnt = (size_t)rng.range(3, 6);
            for (size_t k = 0; k < cnt; ++k) { Point p; p.name(nm[k]); p.x((float)k); P.point(p); Channel c; c.name(nm[k]); c.data((float)k); S.channel(c); names.push_back(nm[k]); }
            std::string q = nameVariant(rng, nm[rng.below(cnt)], &vk); const Points& CP = P; const SubFrame& CS = S;   // const views: the look-up overloads, not the setters
            size_t got = 0; C11_NAME("caller_points.pointIdx", names, q, got = CP.pointIdx(q), (long)got == want);
            C11_NAME("caller_points.point(name)", names, q, const Point& p = CP.point(q), fbits(p.x()) == fbits((float)want));
            C11_NAME("caller_subframe.channelIdx", names, q, got = CS.channelIdx(q), (long)got == want);
            C11_NAME("caller_subframe.channel(name)", names, q, const Channel& c2 = CS.channel(q), fbits(c2.data()) == fbits((float)want)); break; }
        default: { // typed getters
            if (s.groups.empty()) break; size_t g = rng.below(s.groups.size()); const SGroup& G = s.groups[g]; if (G.params.empty()) break; size_t p = rng.below(G.params.size()); const SParam& Q = G.params[p];
            static const int types[4] = {ezc3d::BYTE, ezc3d::INT, ezc3d::FLOAT, ezc3d::CHAR}; static const char* tn[4] = {"valuesAsByte", "valuesAsInt", "valuesAsFloat", "valuesAsString"};
            int t = rng.range(0, 3); Outcome oc; bool same = true;
            const Param& P = c.parameters().group(g).parameter(p);
            try { if (t == 0) same = P.valuesAsByte() == Q.iv; else if (t == 1) same = P.valuesAsInt() == Q.iv; else if (t == 2) { const std::vector<float>& v = P.valuesAsFloat(); same = v.size() == Q.fv.size(); for (size_t k = 0; same && k < v.size(); ++k) same = fbits(v[k]) == Q.fv[k]; } else same = P.valuesAsString() == Q.sv; }
            catch (const std::exception& e__) { oc = classify(e__); } catch (...) { oc.threw = true; oc.cls = "non-std"; }
            bool match = Q.type == types[t]; ++n; bump(std::string("c11:typed_getter") + (match ? ":own_type" : ":other_type"));
            if (match && (oc.threw || !same)) log.viol("C11", std::string("typed/own_type_failed/") + tn[t], esc(G.name) + ":" + esc(Q.name));
            if (!match && !oc.threw) log.viol("C11", std::string("typed/other_type_returned/") + tn[t], esc(G.name) + ":" + esc(Q.name) + " has type " + std::to_string(Q.type));
            if (!match && oc.threw && !satisfies(oc.cls, "invalid_argument")) log.viol("C11", std::string("typed/other_type_wrong_class/") + tn[t] + "/" + oc.cls, esc(G.name) + ":" + esc(Q.name));
        } }
    }
    // two look-up results held AT THE SAME TIME: each must stay what it was when the other is obtained (accessors returning references)
    try {
        if (s.h.elab.size() >= 2) { size_t i = rng.below(s.h.elab.size()), j = rng.below(s.h.elab.size()); const std::string& a = c.header().eventsLabel(i); const std::string& b = c.header().eventsLabel(j); ++n; bump("c11:two_results_held");
            if (a != s.h.elab[i] || b != s.h.elab[j]) log.viol("C11", "two_results/header.eventsLabel", "eventsLabel(" + std::to_string((unsigned long long)i) + ") and eventsLabel(" + std::to_string((unsigned long long)j) + ") held together read '" + esc(a) + "' and '" + esc(b) + "'"); }
        if (!s.frames.empty()) { size_t f = rng.below(s.frames.size()); const SFrame& F = s.frames[f];
            if (F.pts.size() >= 2) { size_t i = rng.below(F.pts.size()), j = rng.below(F.pts.size()); const std::string& a = c.data().frame(f).points().point(i).name(); const std::string& b = c.data().frame(f).points().point(j).name(); ++n; bump("c11:two_results_held");
                if (a != F.pts[i].name || b != F.pts[j].name) log.viol("C11", "two_results/point.name", "names of two points held together differ from the stored ones"); }
            if (!F.subs.empty() && F.subs[0].size() >= 2) { size_t i = rng.below(F.subs[0].size()), j = rng.below(F.subs[0].size()); const std::string& a = c.data().frame(f).analogs().subframe(0).channel(i).name(); const std::string& b = c.data().frame(f).analogs().subframe(0).channel(j).name(); ++n; bump("c11:two_results_held");
                if (a != F.subs[0][i].name || b != F.subs[0][j].name) log.viol("C11", "two_results/channel.name", "names of two channels held together differ from the stored ones"); } }
        std::vector<size_t> named; for (size_t g = 0; g < s.groups.size(); ++g) if (!s.groups[g].name.empty()) named.push_back(g);
        if (named.size() >= 2) { size_t i = named[rng.below(named.size())], j = named[rng.below(named.size())]; const std::string& a = c.parameters().group(i).name(); const std::string& b = c.parameters().group(j).name(); const std::string& da = c.parameters().group(i).description(); ++n; bump("c11:two_results_held");
            if (a != s.groups[i].name || b != s.groups[j].name || da != s.groups[i].desc) log.viol("C11", "two_results/group.name", "names of two groups held together differ from the stored ones");
            if (!s.groups[i].params.empty() && !s.groups[j].params.empty()) { size_t p = rng.below(s.groups[i].params.size()), q = rng.below(s.groups[j].params.size()); const Param& A = c.parameters().group(i).parameter(p); const Param& B = c.parameters().group(j).parameter(q); const std::string& an = A.name(); const std::string& bn = B.name(); const std::string& ad = A.description();
                if (an != s.groups[i].params[p].name || bn != s.groups[j].params[q].name || ad != s.groups[i].params[p].desc) log.viol("C11", "two_results/parameter.name", "names of two parameters held together differ from the stored ones"); } }
    } catch (const std::exception& e) { log.viol("C11", "two_results/threw", std::string("in-range look-ups threw: ") + e.what()); }
    Outcome none; log.ev("lookups", "accesses=" + std::to_string(n), none); bump("op:lookups"); counts["c11_accesses"] += n;
    // read-only accesses must not change the object
    Snap cur = take(*obj);
    if (cur != prev) { log.viol("C11", "lookups/changed_object", "read-only accesses changed the object"); prev = cur; }
    return true;
}

static bool hasGapsS(const Snap& s) { for (size_t f = 0; f < s.frames.size(); ++f) if (s.frames[f].empty()) return true; return false; }

// C01: save, load, compare content.  Optionally continue the history on the loaded object.
bool Hist::opRoundTrip(bool cont) {
    if (caseVariantNames) cont = false;      // names differing by case only collapse in a file: the history does not continue on such a reload
    std::string path = savePath("rt");
    bool gaps = hasGapsS(prev);
    log.pre("write"); Outcome so; VF_TRY(so, obj->write(path));
    log.ev("save", "path=" + path.substr(path.rfind('/') + 1) + " shape=" + shapeSig(prev), so); bump("op:save");
    { Snap after = take(*obj); bump("c14_purity_checked"); if (after != prev) { std::vector<std::string> d = diff(prev, after, 4); std::string all; for (size_t i = 0; i < d.size(); ++i) all += d[i] + "; "; log.viol("C14", "save_changed_object", all); prev = after; } }
    // more than 255 blocks of parameters is beyond the format's capacity (the refusal is C17's business); a band of 64 bytes around the boundary is not judged
    bool beyondBlocks = paramSectionBytes(prev) + 64 > 255 * 512;
    if (so.threw) { if (!wild && !managedEdited && !offSpec && !fileOffSpec && !beyondInt16 && !analogIncomplete && !beyondBlocks) log.viol("C01", "save_threw/" + so.cls, so.what); else bump("c01_save_refused_off_spec"); return true; }
    if (rng.chance(40)) loadDecoy();
    std::unique_ptr<ezc3d::c3d> ld; Outcome lo;
    log.pre("load"); VF_TRY(lo, ld.reset(new ezc3d::c3d(path)));
    log.ev("load", "path=" + path.substr(path.rfind('/') + 1), lo); bump("op:load");
    bool judge = !wild && !gaps && !managedEdited && !offSpec && !fileOffSpec && !caseVariantNames && !beyondInt16;
    if (lo.threw) { if (judge) log.viol("C01", "reload_threw/" + lo.cls, lo.what + " shape " + shapeSig(prev)); else if (!gaps) bump("c01_skipped_wild_reload_threw"); return true; }
    Snap b = take(*ld);
    if (judge) {
        bump("c01_roundtrips");
        ContentOpts co; co.channelNames = namedChannels && !external; std::vector<std::string> d = contentDiff(prev, b, co, 8);
        if (!d.empty()) { std::string all; for (size_t i = 0; i < d.size(); ++i) all += d[i] + "; ";
            std::string k = d[0]; std::string key;
            if (k.find("residual") != std::string::npos) key = "point/residual";
            else if (k.compare(0, 6, "header") == 0) key = "header/" + k.substr(8, k.find(':', 8) == std::string::npos ? std::string::npos : k.find(':', 8) - 8);
            else if (k.compare(0, 5, "frame") == 0) key = "frame";
            else if (k.find(".desc") != std::string::npos || k.find(" desc(") != std::string::npos) key = "description";
            else if (k.find(" dims:") != std::string::npos) key = "param/dims";
            else if (k.find(":missing") != std::string::npos) key = "missing";
            else if (k.find("strings(") != std::string::npos) key = "param/strings";
            else if (k.find("ints(") != std::string::npos) key = "param/ints";
            else if (k.find("floats(") != std::string::npos) key = "param/floats";
            else if (k.find("lock") != std::string::npos) key = "lock";
            else key = "other";
            log.viol("C01", "content/" + key, all + " | shape " + shapeSig(prev)); }
        if (!external) checkC05(b, "reload");
    } else bump(gaps ? "c01_skipped_gaps" : "c01_skipped_wild");
    if (cont && fileOffSpec) offSpec = true;      // the object continues from a file whose meaning the documentation does not define
    if (cont) { obj = std::move(ld); prev = take(*obj); callerFrames.clear(); callerFrameTarget.clear(); Outcome none; log.ev("continue_on_loaded", shapeSig(prev), none); bump("op:continue_on_loaded"); }
    if (!o.dumpFinal) unlink(path.c_str());
    return true;
}

// Before a load: another file of the SAME shape (as many points, channels and sub-frames) but with other names and values is saved and
// loaded in this process.  What the next load returns must not depend on it (a loader that remembers anything between loads).
void Hist::loadDecoy() {
    size_t np = prev.h.nPts, ns = prev.h.sub ? prev.h.sub : 1, nc = ns ? prev.h.nAnalogs / ns : 0;
    { const SParam* q = prev.param("ANALOG", "USED"); if (q && !q->iv.empty() && q->iv[0] >= 0) nc = (size_t)q->iv[0]; }
    if (np > 255 || nc > 255 || ns > 5000) return;
    std::string dp = savePath("decoy");
    try {
        ezc3d::c3d d; { Param r("RATE"); r.set(std::vector<float>(1, 77.f)); d.parameter("POINT", r); } { Param a("RATE"); a.set(std::vector<float>(1, 77.f * (float)ns)); d.parameter("ANALOG", a); }
        for (size_t i = 0; i < np; ++i) d.point("decoy_p" + std::to_string((unsigned long long)(np - i)));
        for (size_t i = 0; i < nc; ++i) d.analog("decoy_c" + std::to_string((unsigned long long)(nc - i)));
        if (np + nc > 0) { Frame f; Points pts; for (size_t i = 0; i < np; ++i) { Point p; p.name("decoy_p" + std::to_string((unsigned long long)(np - i))); p.x(-9.f); p.y(-8.f); p.z(-7.f); p.residual(6.f); pts.point(p); }
            Analogs an; if (nc) for (size_t q = 0; q < ns; ++q) { SubFrame sf; for (size_t k = 0; k < nc; ++k) { Channel c; c.name("decoy_c" + std::to_string((unsigned long long)(nc - k))); c.data(-5.f); sf.channel(c); } an.subframe(sf); }
            f.add(pts, an); size_t nfr = prev.frames.empty() ? 1 : std::min<size_t>(prev.frames.size(), 3); for (size_t k = 0; k < nfr; ++k) d.frame(f); }
        { Param e("EXTRA"); e.set(std::vector<std::string>(2, "decoy")); d.parameter("DECOY", e); }
        log.pre("write", "decoy"); d.write(dp);
        log.pre("load", "decoy"); ezc3d::c3d back(dp);
        bump("c01_decoy_loads");
    } catch (const std::exception&) { bump("c01_decoy_failed"); }
    unlink(dp.c_str());
}

// The stored data are edited IN PLACE through references obtained BEFORE a save (the _nonConst accessors exist for that): the object shows
// the new values at once and the next save must carry them (nothing may be remembered from the earlier save).
bool Hist::opRetainedRefEdit() {
    if (prev.frames.empty()) return false;
    size_t f = rng.below(prev.frames.size()); const SFrame& F = prev.frames[f];
    if (F.pts.empty() && (F.subs.empty() || F.subs[0].empty())) return false;
    Point* pp = 0; Channel* pc = 0; size_t pi = 0, si = 0, ci = 0;
    try {
        if (!F.pts.empty()) { pi = rng.below(F.pts.size()); pp = &obj->data().frame(f).points_nonConst().point_nonConst(pi); }
        if (!F.subs.empty() && !F.subs[0].empty()) { si = rng.below(F.subs.size()); ci = rng.below(F.subs[si].size()); pc = &obj->data().frame(f).analogs_nonConst().subframe_nonConst(si).channel_nonConst(ci); }
    } catch (const std::exception&) { return false; }
    std::string p1 = savePath("before_edit");
    log.pre("write", "before_in_place_edit"); Outcome so; VF_TRY(so, obj->write(p1));
    uint32_t nb = genFloatBits(rng, false), cb = genFloatBits(rng, false);
    Snap expect = prev;
    if (pp) { int comp = rng.range(0, 3); float v = bitsf(nb); if (comp == 0) pp->x(v); else if (comp == 1) pp->y(v); else if (comp == 2) pp->z(v); else pp->residual(v); expect.frames[f].pts[pi].v[comp] = nb; }
    if (pc) { pc->data(bitsf(cb)); expect.frames[f].subs[si][ci].v = cb; }
    Outcome none; log.ev("edit_through_retained_reference", "frame=" + std::to_string((unsigned long long)f) + (pp ? " point" : "") + (pc ? " channel" : "") + (so.threw ? " (save before it refused)" : ""), none); bump("op:edit_through_retained_reference");
    Snap cur = take(*obj);
    if (cur != expect && !wild) { std::vector<std::string> d = diff(expect, cur, 3); std::string all; for (size_t i = 0; i < d.size(); ++i) all += d[i] + "; "; log.viol("C08", "in_place_edit_not_exactly_applied", "an edit of one stored value through its _nonConst reference: " + all); }
    prev = cur;
    unlink(p1.c_str());
    return opRoundTrip(false);      // the save that follows is judged against the edited object
}

// 66..125 kB of parameters: the parameter section takes 130..250 blocks (the block count byte above 127, record offsets above 32767)
bool Hist::opBulkParams() {
    if (bulkDone || wild) return false;
    for (size_t g = 0; g < prev.groups.size(); ++g) for (size_t q = 0; q < prev.groups[g].params.size(); ++q) if (prev.groups[g].params[q].fv.size() + prev.groups[g].params[q].iv.size() > 4000) return false;
    std::vector<std::string> gnames; for (size_t g = 0; g < prev.groups.size(); ++g) if (!prev.groups[g].name.empty()) gnames.push_back(prev.groups[g].name);
    std::string group = (prev.groups.size() >= 127 || rng.chance(50)) ? "POINT" : freshName("Bulk", gnames);
    size_t est = paramSectionBytes(prev);
    int n = rng.range(3, 4); bool any = false;
    for (int k = 0; k < n; ++k) {
        // a record may itself be longer than 32 767 bytes (its next-offset word needs all 16 bits): every third one is
        bool longRec = (k % 3 == 1);
        size_t cost = longRec ? 46000 : 31000;
        if (est + cost > 118000) break;      // stay well inside 255 blocks (130 560 bytes)
        est += cost;
        Param p("BULK" + std::to_string(k)); std::vector<size_t> dm; std::string ds;
        if (longRec) { size_t a = (size_t)rng.range(250, 255), b = (size_t)rng.range(33, 44); dm.push_back(a); dm.push_back(b); std::vector<float> v(a * b); for (size_t i = 0; i < v.size(); ++i) v[i] = 0.5f * (float)(i % 7919) - 50.f; p.set(v, dm); ds = "float"; }
        else if (rng.chance(60)) { size_t a = (size_t)rng.range(200, 255), b = (size_t)rng.range(25, 30); dm.push_back(a); dm.push_back(b); std::vector<float> v(a * b); for (size_t i = 0; i < v.size(); ++i) v[i] = 0.25f * (float)(i % 9973) - 100.f; p.set(v, dm); ds = "float"; }
        else { size_t a = (size_t)rng.range(200, 255), b = (size_t)rng.range(50, 60); dm.push_back(a); dm.push_back(b); std::vector<int> v(a * b); for (size_t i = 0; i < v.size(); ++i) v[i] = (int)(i % 60000) - 30000; p.set(v, dm); ds = "int"; }
        SParam given = takeParam(p);
        log.pre("parameter", "bulk"); Outcome oc; VF_TRY(oc, obj->parameter(group, p));
        log.ev("add_bulk_param", "group=\"" + esc(group) + "\" name=" + p.name() + " type=" + ds + " dims=" + dimsToStr(dm), oc); bump("op:add_bulk_param");
        if (!oc.threw) any = true; else log.viol("C09", "param/valid_refused/add_bulk_param/" + oc.cls, oc.what);
        afterMutator("add_bulk_param", oc);
    }
    bulkDone = true;
    return any;
}

// C14 (in-process part): two saves of the same object are byte-identical and do not change it.
bool Hist::opSaveTwice() {
    std::string p1 = savePath("s1"), p2 = savePath("s2");
    if (rng.chance(50)) writeFileBytes(p2, std::string((size_t)rng.range(100, 200000), 'J'));   // the second destination already holds (usually longer) unrelated content
    log.pre("write_twice"); Outcome o1, o2; VF_TRY(o1, obj->write(p1)); VF_TRY(o2, obj->write(p2));
    log.ev("save_twice", shapeSig(prev), o1); bump("op:save_twice");
    Snap after = take(*obj); bump("c14_purity_checked");
    if (after != prev) { log.viol("C14", "save_changed_object", "snapshot differs after write()"); prev = after; }
    if (!o1.threw && !o2.threw) { bool k1, k2; std::string a = readFileBytes(p1, &k1), b = readFileBytes(p2, &k2); bump("c14_double_saves");
        if (!k1 || !k2 || a != b) { size_t off = 0; while (off < a.size() && off < b.size() && a[off] == b[off]) ++off; log.viol("C14", "two_saves_differ", "sizes " + std::to_string((unsigned long long)a.size()) + "/" + std::to_string((unsigned long long)b.size()) + " first difference at offset " + std::to_string((unsigned long long)off)); } }
    unlink(p1.c_str()); unlink(p2.c_str());
    return true;
}

bool Hist::opPrint() {
    log.pre("print"); Outcome oc; VF_TRY(oc, obj->print());
    log.ev("print", "", oc); bump("op:print");
    Snap cur = take(*obj); if (cur != prev) { log.viol("C13", "print_changed_object", ""); prev = cur; }
    return true;
}

// copy elements out of the object and edit the copies: the object must not change (C08 mirror, judged as observation only in disciplined mode)
bool Hist::opCopyOut() {
    if (prev.frames.empty() || rng.chance(25)) {
        // copies of a parameter, a group and the whole parameter tree are edited: the object must not change (C09: every other parameter
        // and group is unchanged; nothing the object holds may be shared with what it hands out by value)
        std::vector<std::pair<size_t, size_t> > cand; for (size_t g = 0; g < prev.groups.size(); ++g) for (size_t q = 0; q < prev.groups[g].params.size(); ++q) if (!prev.groups[g].name.empty()) cand.push_back(std::make_pair(g, q));
        if (cand.empty()) return false;
        std::pair<size_t, size_t> c = cand[rng.below(cand.size())];
        try {
            Param pc(obj->parameters().group(c.first).parameter(c.second));
            pc.name("EDITED_COPY"); pc.description("edited"); if (pc.isLocked()) pc.unlock(); else pc.lock();
            if (pc.type() == ezc3d::INT) pc.set(std::vector<int>(2, -4242)); else if (pc.type() == ezc3d::FLOAT) pc.set(std::vector<float>(3, -42.5f)); else pc.set(std::vector<std::string>(2, "edited copy"));
            ezc3d::ParametersNS::GroupNS::Group gc(obj->parameters().group(c.first));
            gc.name("EDITED_GROUP"); gc.description("edited"); if (gc.isLocked()) gc.unlock(); else gc.lock(); gc.parameter(pc);
            if (gc.nbParameters() > 0) { Param inner(gc.parameter(0)); inner.set(std::vector<int>(1, 7)); gc.parameter(inner); }
            ezc3d::ParametersNS::Parameters tree(obj->parameters()); tree.group(gc);
            if (tree.nbGroups() > 0 && tree.group(0).nbParameters() > 0) { Param q0(tree.group(0).parameter(0)); q0.description("edited in a copy of the tree"); tree.group_nonConst(0).parameter(q0); }
        } catch (const std::exception&) { return false; }
        Outcome none; log.ev("copy_params_out_and_edit", "group=" + std::to_string((unsigned long long)c.first) + " param=" + std::to_string((unsigned long long)c.second), none); bump("op:copy_params_out_and_edit");
        Snap cur = take(*obj);
        if (cur != prev) { std::vector<std::string> d = diff(prev, cur, 3); std::string all; for (size_t i = 0; i < d.size(); ++i) all += d[i] + "; "; log.viol("C09", "param/copy_aliases_object", "editing copies of a parameter, a group and the parameter tree changed the object: " + all); prev = cur; }
        return true;
    }
    size_t f = rng.below(prev.frames.size());
    if (rng.chance(50)) {
        // a COPY-CONSTRUCTED frame shares its payload with the stored one until add() replaces it: giving the copy new points/analogs of the
        // same size must not reach the stored frame
        try { Frame copy(obj->data().frame(f)); const SFrame& old = prev.frames[f];
            if (!old.pts.empty() && rng.chance(60)) { Points p; for (size_t k = 0; k < old.pts.size(); ++k) { Point q; q.name(old.pts[k].name); q.x(-555.f); q.y((float)k); p.point(q); } copy.add(p); }
            else if (!old.subs.empty()) { Analogs a; for (size_t s = 0; s < old.subs.size(); ++s) { SubFrame sf; for (size_t k = 0; k < old.subs[s].size(); ++k) { Channel c; c.name(old.subs[s][k].name); c.data(-777.f); sf.channel(c); } a.subframe(sf); } copy.add(a); }
            else return false; } catch (std::exception&) { return false; }
        Outcome none; log.ev("copy_construct_and_refill", "frame=" + std::to_string((unsigned long long)f), none); bump("op:copy_construct_and_refill");
        Snap cur = take(*obj);
        if (cur != prev) { log.viol("C08", "refilled_copy_of_stored_frame_changes_object", "Frame copy(stored); copy.add(same-size points/analogs) changed the stored frame"); prev = cur; }
        return true;
    }
    try { Frame copy; copy.add(obj->data().frame(f)); if (copy.points().nbPoints() > 0) copy.points_nonConst().point_nonConst(0).x(123456.f); if (copy.analogs().nbSubframes() > 0 && copy.analogs().subframe(0).nbChannels() > 0) copy.analogs_nonConst().subframe_nonConst(0).channel_nonConst(0).data(-1.f); } catch (std::exception&) { return false; }
    Outcome none; log.ev("copy_out_and_edit", "frame=" + std::to_string((unsigned long long)f), none); bump("op:copy_out_and_edit");
    Snap cur = take(*obj);
    if (cur != prev) { log.viol("C08", "copy_of_stored_frame_aliases_object", "editing a Frame::add copy of a stored frame changed the object"); prev = cur; }
    return true;
}

// wild: hostile edits of managed parameters / undocumented shapes.  Only crash-freedom (C13) and C10 are judged afterwards.
bool Hist::opWildEdit() {
    if (!wild) return false;
    static const char* grp[] = {"POINT", "ANALOG"}; static const char* pn[] = {"USED", "FRAMES", "LABELS", "DESCRIPTIONS", "UNITS", "SCALE", "OFFSET", "RATE"};
    std::string g = grp[rng.below(2)], n = pn[rng.below(8)];
    Param p(n); int k = rng.range(0, 5); std::string d;
    switch (k) { case 0: p.set(std::vector<int>()); d = "empty_int"; break; case 1: p.set(std::vector<float>()); d = "empty_float"; break; case 2: p.set(std::vector<std::string>()); d = "empty_string"; break;
        case 3: p.set(rng.range(0, 40)); d = "int"; break; case 4: p.set(std::vector<float>(1, (float)rng.range(0, 300))); d = "float"; break; default: p.set(std::vector<std::string>((size_t)rng.range(1, 5), "w")); d = "strings"; }
    log.pre("wild_managed_edit", g + ":" + n + " " + d); Outcome oc; VF_TRY(oc, obj->parameter(g, p));
    log.ev("wild_managed_edit", g + ":" + n + " " + d, oc); bump("op:wild_managed_edit");
    managedEdited = true;
    Snap cur = take(*obj);
    if (oc.threw && cur != prev) { bump("wild_refused_edit_changed_object"); log.obs("wild_refused_edit_changed_object", g + ":" + n + " " + d + " " + oc.cls); }
    prev = cur;
    return true;
}

// Loads that must be refused: missing file, directory, empty file, garbage.  (C13: the failing constructor must release what it allocated
// with the right deallocator; C16's business otherwise.)  The object under test is not involved.
bool Hist::opFailedLoad() {
    static const char* kinds[] = {"missing", "directory", "empty", "garbage", "zeros"};
    int k = rng.range(0, 4); std::string p = tmp + "/bad_" + std::to_string(nSaves++) + ".c3d";
    if (k == 0) p = tmp + "/does_not_exist.c3d"; else if (k == 1) p = tmp; else if (k == 2) writeFileBytes(p, ""); else if (k == 3) writeFileBytes(p, std::string((size_t)rng.range(1, 3000), 'g')); else writeFileBytes(p, std::string((size_t)rng.range(1, 3000), '\0'));
    Outcome oc; std::unique_ptr<ezc3d::c3d> l; log.pre("load", kinds[k]); VF_TRY(oc, l.reset(new ezc3d::c3d(p)));
    log.ev("failed_load", kinds[k], oc); bump("op:failed_load");
    if (!oc.threw) log.viol("C16", std::string("not_a_c3d_loaded/") + kinds[k], "a file that is not a C3D file was loaded without an exception");
    l.reset();
    return true;
}

// A second, unrelated object in the same process with the same number of declared points but other names: its README frame must be accepted.
bool Hist::opSecondObject() {
    if (prev.h.sub > 5000) return false;     // (histories with tens of thousands of sub-frames per frame build no frames, see opSetRate)
    std::vector<std::string> labels; { const SParam* q = prev.param("POINT", "LABELS"); if (q && q->type == ezc3d::CHAR) labels = q->sv; }
    size_t np = labels.empty() ? (size_t)rng.range(1, 4) : labels.size(); if (np > 12) np = 12;
    Outcome oc; bool valid = true;
    try {
        ezc3d::c3d other; { Param r("RATE"); r.set(std::vector<float>(1, 50.f)); other.parameter("POINT", r); }
        std::vector<std::string> names; for (size_t i = 0; i < np; ++i) { names.push_back("second_" + std::to_string((unsigned long long)i) + "_" + std::to_string((long long)rng.below(100000))); other.point(names.back()); }
        size_t ns2 = prev.h.sub + (size_t)rng.range(1, 3);       // a sub-frame count this process has not used for the first object
        { Param a("RATE"); a.set(std::vector<float>(1, 50.f * (float)ns2)); other.parameter("ANALOG", a); }
        other.analog("first_channel");
        Frame f; Points pts; for (size_t i = 0; i < np; ++i) { Point p; p.name(names[i]); p.x((float)i); pts.point(p); }
        Analogs an; for (size_t s = 0; s < ns2; ++s) { SubFrame sf; Channel ch; ch.name("first_channel"); ch.data((float)s); sf.channel(ch); an.subframe(sf); }
        f.add(pts, an);
        log.pre("frame", "second_object"); other.frame(f); other.frame(f, 0); other.frame(f);
        log.pre("analog", "second_object"); other.analog("late_channel");          // a channel declared on the filled data of the second object
        if (other.data().nbFrames() != 2 || other.data().frame(0).points().nbPoints() != np) valid = false;
        for (size_t fr = 0; fr < other.data().nbFrames(); ++fr) { if (other.data().frame(fr).analogs().nbSubframes() != ns2) valid = false; else for (size_t s = 0; s < ns2; ++s) if (other.data().frame(fr).analogs().subframe(s).nbChannels() != 2) valid = false; }
    } catch (const std::exception& e) { oc = classify(e); }
    log.ev("second_object", "points=" + std::to_string((unsigned long long)np), oc); bump("op:second_object");
    if (!wild && oc.threw) log.viol("C07", "frame/valid_refused_on_second_object/" + oc.cls, "an unrelated object with " + std::to_string((unsigned long long)np) + " declared points refused its own matching frame: " + oc.what);
    if (!wild && !valid) log.viol("C06", "frame/second_object_content", "second object does not hold the frame it was given");
    Snap cur = take(*obj); if (cur != prev) { log.viol("C08", "second_object_changes_first", "working on an unrelated object changed this one"); prev = cur; }
    return true;
}

// Many declared points on a data set without frames (up to 300): every call is watched by C10 (a throw must leave the object unchanged).
bool Hist::opManyPoints() {
    if (!prev.frames.empty()) return false;
    std::vector<std::string> labels; { const SParam* q = prev.param("POINT", "LABELS"); if (q && q->type == ezc3d::CHAR) labels = q->sv; }
    if (labels.size() >= 300) return false;
    size_t target = std::min<size_t>(300, labels.size() + (size_t)rng.range(200, 290));
    for (size_t i = labels.size(); i < target; ++i) {
        std::string nm = "M" + std::to_string((unsigned long long)i);
        log.pre("point", "many"); Outcome oc; VF_TRY(oc, obj->point(nm));
        if (oc.threw || i + 1 == target || i == 254 || i == 255 || i == 256) { log.ev("declare_point_many", "name=" + nm + " count=" + std::to_string((unsigned long long)(i + 1)), oc); afterMutator("declare_point_many", oc); if (oc.threw) break; }
        else prev = take(*obj);
    }
    bump("op:many_points"); offSpec = true;     // more than 255 points is beyond the format (C17): shape agreement with the saved file is not judged
    return true;
}

// Frames appended up to and just past 32 767 (POINT:FRAMES is a 16-bit field): every call around the boundary is watched by C10 (a throw must
// leave the object unchanged) and C05 (the three views agree while the calls are accepted).  Saving such an object is C17's business.
bool Hist::opManyFrames(size_t targetArg) {
    if (prev.h.sub > 5000) return false;
    if (wild || external || !prev.frames.empty() || managedEdited || offSpec) return false;
    std::vector<std::string> labels; { const SParam* q = prev.param("POINT", "LABELS"); if (q && q->type == ezc3d::CHAR) labels = q->sv; }
    bool withChannels = false; { const SParam* a = prev.param("ANALOG", "USED"); if (a && !a->iv.empty() && a->iv[0] != 0) { if (!targetArg || prev.h.sub == 0 || prev.h.sub > 3 || a->iv[0] > 3) return false; withChannels = true; } }
    for (int t = 0; t < 4; ++t) { const SParam* r = prev.param("POINT", "RATE"); if (r && !r->fv.empty() && bitsf(r->fv[0]) != 0.f) break; opSetRate(false); }
    { const SParam* r = prev.param("POINT", "RATE"); if (!r || r->fv.empty() || bitsf(r->fv[0]) == 0.f) return false; }
    if (labels.empty() && !withChannels) { opDeclarePoint(); const SParam* q = prev.param("POINT", "LABELS"); if (q && q->type == ezc3d::CHAR) labels = q->sv; }
    if ((labels.empty() && !withChannels) || labels.size() > 6 || !prev.frames.empty()) return false;
    Frame f; { Points pts; for (size_t i = 0; i < labels.size(); ++i) { Point p; p.name(labels[i]); p.x(1.5f); p.y(-2.f); p.z((float)i); pts.point(p); }
        if (withChannels) { std::vector<std::string> cl; { const SParam* q = prev.param("ANALOG", "LABELS"); if (q && q->type == ezc3d::CHAR) cl = q->sv; } Analogs an; for (size_t s = 0; s < prev.h.sub; ++s) { SubFrame sf; for (size_t k = 0; k < cl.size(); ++k) { Channel c; c.name(cl[k]); c.data(0.5f * (float)k); sf.channel(c); } an.subframe(sf); } f.add(pts, an); } else f.add(pts); }
    size_t target = targetArg ? targetArg : 32767 + (size_t)rng.range(1, 3);
    for (size_t i = 0; i < target; ++i) {
        bool watch = i + 4 >= target || (i + 4 >= 32767 && i <= 32769);
        if (watch) prev = take(*obj);
        log.pre("frame", "many"); Outcome oc; VF_TRY(oc, obj->frame(f));
        if (oc.threw || watch) { log.ev("frame_append_many", "count=" + std::to_string((unsigned long long)(i + 1)), oc); afterMutator("frame_append_many", oc); if (oc.threw) break; }
    }
    prev = take(*obj);
    bump("op:many_frames"); offSpec = true; beyondInt16 = true;     // more than 32 767 frames is beyond the format: files of this object are not judged
    return true;
}

// C14 "equal objects save to identical files": rebuild an EQUAL object along a different history (a fresh object that receives the content of the
// final snapshot in one straight pass) and compare the two saved files byte for byte.  Only when the rebuilt object is snapshot-equal.
void Hist::rebuildAndCompare() {
    if (wild || managedEdited || offSpec || fileOffSpec || external || caseVariantNames || analogIncomplete || beyondInt16) { bump("c14_rebuild_skipped"); return; }
    const Snap& s = prev;
    for (size_t f = 0; f < s.frames.size(); ++f) if (s.frames[f].empty()) { bump("c14_rebuild_skipped"); return; }
    for (size_t g = 0; g < s.groups.size(); ++g) if (!s.groups[g].desc.empty() || s.groups[g].name.empty()) { bump("c14_rebuild_skipped"); return; }
    std::unique_ptr<ezc3d::c3d> r(new ezc3d::c3d());
    try {
        for (size_t g = 0; g < s.groups.size(); ++g) {
            const SGroup& G = s.groups[g];
            for (size_t q = 0; q < G.params.size(); ++q) { const SParam& P = G.params[q]; Param p(P.name, P.desc);
                if (P.type == ezc3d::INT) p.set(P.iv, P.dims);
                else if (P.type == ezc3d::FLOAT) { std::vector<float> v(P.fv.size()); for (size_t i = 0; i < v.size(); ++i) v[i] = bitsf(P.fv[i]); p.set(v, P.dims); }
                else if (P.type == ezc3d::CHAR) { std::vector<size_t> d(P.dims.begin() + (P.dims.empty() ? 0 : 1), P.dims.end()); p.set(P.sv, d); }
                else { bump("c14_rebuild_skipped"); return; }
                if (P.lock) p.lock();
                r->parameter(G.name, p); }
            if (G.params.empty()) { bump("c14_rebuild_skipped"); return; }
            if (G.lock) r->lockGroup(G.name);
        }
        for (size_t f = 0; f < s.frames.size(); ++f) { const SFrame& F = s.frames[f]; Frame fr; Points pts; Analogs an;
            for (size_t i = 0; i < F.pts.size(); ++i) { Point p; p.name(F.pts[i].name); p.x(bitsf(F.pts[i].v[0])); p.y(bitsf(F.pts[i].v[1])); p.z(bitsf(F.pts[i].v[2])); p.residual(bitsf(F.pts[i].v[3])); pts.point(p); }
            for (size_t q = 0; q < F.subs.size(); ++q) { SubFrame sf; for (size_t k = 0; k < F.subs[q].size(); ++k) { Channel c; c.name(F.subs[q][k].name); c.data(bitsf(F.subs[q][k].v)); sf.channel(c); } an.subframe(sf); }
            fr.add(pts, an); r->frame(fr); }
    } catch (const std::exception&) { bump("c14_rebuild_failed"); return; }
    Snap rs = take(*r);
    { Snap a = s, b = rs;      // fields that only remember where a loaded file kept its sections are not content and are rewritten by save
      a.h.zeros = b.h.zeros; a.h.paramAddr = b.h.paramAddr; a.h.checksum = b.h.checksum; a.h.dataStart = b.h.dataStart; a.ph = b.ph;
      for (size_t g = 0; g < a.groups.size() && g < b.groups.size(); ++g) for (size_t q = 0; q < a.groups[g].params.size() && q < b.groups[g].params.size(); ++q) if (a.groups[g].name == "POINT" && a.groups[g].params[q].name == "DATA_START") a.groups[g].params[q].iv = b.groups[g].params[q].iv;
      if (a != b) { bump("c14_rebuild_not_equal"); if (log.verbose) { std::vector<std::string> dd = diff(a, b, 4); for (size_t i = 0; i < dd.size(); ++i) log.line("REBUILD-DIFF %s", dd[i].c_str()); } return; } }        // (e.g. a header field that only a particular history produces): not comparable, no verdict
    std::string p1 = savePath("orig"), p2 = savePath("rebuilt"); Outcome o1, o2;
    log.pre("write", "original"); VF_TRY(o1, obj->write(p1)); log.pre("write", "rebuilt"); VF_TRY(o2, r->write(p2));
    bump("c14_equal_objects_compared");
    if (o1.threw != o2.threw) log.viol("C14", "equal_objects_save_differently/one_refused", "the object and a snapshot-equal object built along another history: one save threw, the other did not");
    else if (!o1.threw) { std::string a = readFileBytes(p1), b = readFileBytes(p2);
        if (a != b) { size_t off = 0; while (off < a.size() && off < b.size() && a[off] == b[off]) ++off; log.viol("C14", "equal_objects_save_differently/bytes", "the object and a snapshot-equal object built along another history are saved to different files: first difference at offset " + std::to_string((unsigned long long)off) + ", sizes " + std::to_string((unsigned long long)a.size()) + "/" + std::to_string((unsigned long long)b.size())); } }
    Outcome none; log.ev("rebuild_and_compare", shapeSig(s), none);
    unlink(p1.c_str()); unlink(p2.c_str());
}

static long int0p(const Snap& s, const char* g, const char* n) { const SParam* q = s.param(g, n); return q && !q->iv.empty() ? q->iv[0] : 0; }
struct OpW { const char* name; int w; };

void Hist::run() {
    // profile -> weights
    std::string pf = o.profile.empty() ? "mixed" : o.profile;
    specialFloats = o.geti("special", 1) != 0 && rng.chance(60);
    namedChannels = rng.chance(50);
    std::map<std::string, int> W;
    W["rate_p"] = 6; W["rate_a"] = 6; W["decl_p"] = 10; W["decl_c"] = 8; W["param"] = 8; W["pset"] = 3; W["lock"] = 3; W["append"] = 22; W["replace"] = 7; W["extend"] = 4;
    W["resubmit"] = 4; W["mutate"] = 4; W["pcol"] = 4; W["ccol"] = 4; W["lookups"] = 5; W["rt"] = 2; W["rtc"] = 2; W["save2"] = 1; W["print"] = 0; W["wildedit"] = wild ? 5 : 0; W["copyout"] = 1; W["rmw"] = 3; W["self"] = 3; W["selfp"] = 2; W["rencopy"] = 2; W["rerate"] = 2; W["badload"] = 1; W["second"] = 1; W["manypts"] = 0; W["refedit"] = 1; W["bulk"] = 0; W["manyfr"] = 0;
    if (pf == "c06") { W["self"] = 8; W["rmw"] = 10; W["append"] = 25; W["replace"] = 18; W["extend"] = 12; W["pcol"] = 8; W["ccol"] = 8; W["param"] = 2; W["lookups"] = 1; }
    else if (pf == "c07") { W["second"] = 6; W["append"] = 25; W["replace"] = 10; W["extend"] = 6; W["pcol"] = 12; W["ccol"] = 12; W["decl_p"] = 12; W["decl_c"] = 10; W["param"] = 1; W["lookups"] = 0; W["rate_p"] = 8; W["rate_a"] = 8; }
    else if (pf == "c08") { W["refedit"] = 4; W["self"] = 8; W["rmw"] = 10; W["resubmit"] = 16; W["mutate"] = 18; W["pcol"] = 8; W["ccol"] = 8; W["copyout"] = 5; W["param"] = 1; W["lookups"] = 0; }
    else if (pf == "c09") { W["copyout"] = 8; W["rencopy"] = 10; W["selfp"] = 8; W["param"] = 40; W["pset"] = 25; W["lock"] = 15; W["append"] = 6; W["lookups"] = 2; W["rtc"] = 3; }
    else if (pf == "c10") { W["manypts"] = 2; W["param"] = 14; W["pset"] = 6; W["lock"] = 6; W["pcol"] = 10; W["ccol"] = 10; }
    else if (pf == "c11") { W["lookups"] = 45; W["decl_p"] = 14; W["decl_c"] = 10; W["param"] = 10; }
    else if (pf == "c01") { W["refedit"] = 3; W["bulk"] = 1; W["rerate"] = 5; W["rencopy"] = 5; W["rt"] = 3; W["rtc"] = 3; W["param"] = 14; W["lookups"] = 1; }
    else if (pf == "c13") { W["rencopy"] = 6; W["badload"] = 8; W["selfp"] = 8; W["self"] = 8; W["print"] = 3; W["rt"] = 3; W["rtc"] = 3; W["save2"] = 2; }
    std::vector<std::pair<std::string, int> > ops(W.begin(), W.end());
    int total = 0; for (size_t i = 0; i < ops.size(); ++i) total += ops[i].second;

    // start object: new, or an external file when given
    std::string startFile = o.get("start");
    if (!startFile.empty() && rng.chance((int)o.geti("startpct", 100))) {
        std::vector<std::string> files = readLines(startFile);
        std::string f = files[rng.below(files.size())];
        Outcome lo; VF_TRY(lo, obj.reset(new ezc3d::c3d(f)));
        log.ev("load_external", f.substr(f.rfind('/') + 1), lo);
        if (lo.threw) { obj.reset(new ezc3d::c3d()); } else { external = true; declaredByName = false; }
    } else { Outcome none; obj.reset(new ezc3d::c3d()); log.ev("new", "", none); }
    prev = take(*obj);
    checkC05(prev, "start");
    int maxops = rng.range(o.maxops / 3 + 1, o.maxops);
    bool manyFramesCase = pf == "c10" && !external && !wild && idx % 40 == 7;      // (points only: 32 770 frames are appended first)
    bool hugeColumnCase = pf == "c08" && !external && !wild && idx % 120 == 11;      // more frames than 16 bits count, then a point and a channel column
    // most disciplined histories start the README way: rates, then declarations
    if (hugeColumnCase) {      // fixed small shape: 100 Hz points, 1-2 sub-frames, 0-2 points, one channel
        { Param r("RATE"); r.set(std::vector<float>(1, 100.f)); obj->parameter("POINT", r); Param a("RATE"); a.set(std::vector<float>(1, 100.f * (float)rng.range(1, 2))); obj->parameter("ANALOG", a); prev = take(*obj); Outcome none; log.ev("set_rates_for_huge_column_case", "", none); }
        int np = rng.range(0, 2); for (int i = 0; i < np; ++i) opDeclarePoint(); opDeclareChannel();
    } else
    if (!external && rng.chance(70)) { opSetRate(false); if (rng.chance(75)) opSetRate(true); int np = rng.range(0, (int)o.geti("maxpts", 6)); if (hugeColumnCase && np > 2) np = 2; for (int i = 0; i < np; ++i) opDeclarePoint(); int nc = rng.range(0, (int)o.geti("maxch", 4)); if (manyFramesCase) nc = 0; if (hugeColumnCase && nc > 1) nc = 1; for (int i = 0; i < nc; ++i) opDeclareChannel(); }
    int done = 0, guard = 0;
    if (manyFramesCase && opManyFrames()) ++done;
    if (hugeColumnCase) {
        if (opManyFrames(65536 + (size_t)rng.range(1, 3))) { opDeclareChannel(); opDeclarePoint(); done = maxops; /* every further step would snapshot 65 537 frames */ } }
    while (done < maxops && guard < maxops * 20) {
        ++guard;
        // diagnosed state: the object was loaded from a file whose ANALOG group lacks the mandatory parameters (empty ANALOG group, a
        // layout the loader accepts).  The updaters need them, so edits throw half-way: reported under one key, whatever monitor sees it.
        { bool inc = external && !(prev.param("ANALOG", "USED") && prev.param("ANALOG", "LABELS") && prev.param("ANALOG", "RATE") && prev.param("ANALOG", "SCALE") && prev.param("ANALOG", "OFFSET") && prev.param("ANALOG", "UNITS") && prev.param("ANALOG", "DESCRIPTIONS"));
          if (inc) analogIncomplete = true;
          log.overrideKey = analogIncomplete ? "edit_of_object_loaded_without_mandatory_analog_parameters" : ""; }
        int x = rng.range(0, total - 1); size_t k = 0; while (x >= ops[k].second) { x -= ops[k].second; ++k; }
        const std::string& n = ops[k].first; bool ran;
        if (n == "rate_p") ran = opSetRate(false); else if (n == "rate_a") ran = opSetRate(true);
        else if (n == "decl_p") ran = opDeclarePoint(); else if (n == "decl_c") ran = opDeclareChannel();
        else if (n == "param") ran = opAddParam(); else if (n == "pset") ran = opParamSet(); else if (n == "lock") ran = opLock();
        else if (n == "append") ran = opFrame(0); else if (n == "replace") ran = opFrame(1); else if (n == "extend") ran = opFrame(2);
        else if (n == "resubmit") ran = opResubmit(); else if (n == "mutate") ran = opMutateCaller();
        else if (n == "pcol") ran = opPointColumn(); else if (n == "ccol") ran = opChannelColumn();
        else if (n == "lookups") ran = opLookups(); else if (n == "rt") ran = opRoundTrip(false); else if (n == "rtc") ran = opRoundTrip(true);
        else if (n == "save2") ran = opSaveTwice(); else if (n == "print") ran = opPrint(); else if (n == "wildedit") ran = opWildEdit(); else if (n == "copyout") ran = opCopyOut(); else if (n == "rmw") ran = opReadModifyWrite(); else if (n == "self") ran = opSelfFrame(); else if (n == "selfp") ran = opSelfParam(); else if (n == "rencopy") ran = opRenameCopy(); else if (n == "rerate") ran = opReRate(); else if (n == "badload") ran = opFailedLoad(); else if (n == "second") ran = opSecondObject(); else if (n == "manypts") ran = opManyPoints(); else if (n == "refedit") ran = opRetainedRefEdit(); else if (n == "bulk") ran = opBulkParams(); else if (n == "manyfr") ran = opManyFrames();
        else ran = false;
        if (ran) ++done;
    }
    // every history ends with a save/load (C01; C10's "can still be saved and reloaded")
    bool hadRefusal = counts.count("refused") && counts["refused"] > 0;
    opRoundTrip(false);
    if (hadRefusal) bump("c10_saved_and_reloaded_after_refusal");
    if (o.geti("rebuild", 0)) rebuildAndCompare();
    if (o.dumpFinal) {
        char b[700]; snprintf(b, sizeof b, "%s/final_%ld.c3d", o.out.c_str(), idx);
        Outcome so; VF_TRY(so, obj->write(b));
        snprintf(b, sizeof b, "%s/final_%ld.json", o.out.c_str(), idx);
        writeFileBytes(b, toJson(prev, true));
        log.line("FINAL %s gaps=%d managedEdited=%d wild=%d offSpec=%d external=%d incomplete=%d", so.threw ? ("save_threw:" + so.cls).c_str() : "saved", hasGapsS(prev) ? 1 : 0, managedEdited ? 1 : 0, wild ? 1 : 0, (offSpec || fileOffSpec || caseVariantNames || beyondInt16 || paramSectionBytes(prev) + 64 > 255 * 512) ? 1 : 0, external ? 1 : 0, analogIncomplete ? 1 : 0);
    }
    log.pre("destroy"); obj.reset();       // explicit destruction inside the monitored region
    Outcome none; log.ev("destroy", "", none);
    log.obs("shape", shapeSig(prev));
    for (std::map<std::string, long>::iterator it = counts.begin(); it != counts.end(); ++it) log.line("CNT %s %ld", it->first.c_str(), it->second);
    rmTree(tmp);
}

}  // namespace vf
