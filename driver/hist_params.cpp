#include "hist.h"
#include <algorithm>
#include <sstream>
#include <set>

namespace vf {

static std::string upperS(std::string s) { for (size_t i = 0; i < s.size(); ++i) s[i] = (char)toupper((unsigned char)s[i]); return s; }
static float float0(const Snap& s, const char* g, const char* p) { const SParam* q = s.param(g, p); return (q && q->type == ezc3d::FLOAT && !q->fv.empty()) ? bitsf(q->fv[0]) : 0.f; }

// C09 relation for c3d::parameter(group, p) that returned normally.
static void checkParamRelation(Hist& h, const std::string& op, const Snap& cur, const std::string& group, const SParam& given) {
    const Snap& p = h.prev; h.bump("c09_param_checked");
    int gi = p.findGroup(group);
    if (cur.frames != p.frames) h.log.viol("C09", "param/frames_changed/" + op, "a parameter edit changed the stored frames");
    if (gi < 0) {
        if (cur.groups.size() != p.groups.size() + 1) { h.log.viol("C09", "param/group_not_created/" + op, "group count " + std::to_string((unsigned long long)p.groups.size()) + " -> " + std::to_string((unsigned long long)cur.groups.size())); return; }
        for (size_t g = 0; g < p.groups.size(); ++g) if (cur.groups[g] != p.groups[g]) { h.log.viol("C09", "param/other_group_changed/" + op, "group " + esc(p.groups[g].name) + " changed when a new group was created"); return; }
        const SGroup& G = cur.groups.back();
        if (G.name != group || G.params.size() != 1 || G.params[0] != given) h.log.viol("C09", "param/new_group_content/" + op, "new group '" + esc(G.name) + "' with " + std::to_string((unsigned long long)G.params.size()) + " parameters does not hold exactly the given one");
        return;
    }
    if (cur.groups.size() != p.groups.size()) { h.log.viol("C09", "param/group_count/" + op, "group count changed although the group existed"); return; }
    for (size_t g = 0; g < p.groups.size(); ++g) if ((int)g != gi && cur.groups[g] != p.groups[g]) { h.log.viol("C09", "param/other_group_changed/" + op, "group " + esc(p.groups[g].name) + " changed"); return; }
    const SGroup& A = p.groups[gi]; const SGroup& B = cur.groups[gi];
    if (A.name != B.name || A.desc != B.desc || A.lock != B.lock) h.log.viol("C09", "param/group_attrs_changed/" + op, "group attributes changed");
    int pi = A.find(given.name);
    size_t pos;
    if (pi < 0) { if (B.params.size() != A.params.size() + 1) { h.log.viol("C09", "param/not_appended/" + op, "parameter count " + std::to_string((unsigned long long)A.params.size()) + " -> " + std::to_string((unsigned long long)B.params.size())); return; } pos = A.params.size(); }
    else { if (B.params.size() != A.params.size()) { h.log.viol("C09", "param/replace_changed_count/" + op, "parameter count " + std::to_string((unsigned long long)A.params.size()) + " -> " + std::to_string((unsigned long long)B.params.size())); return; } pos = (size_t)pi; }
    for (size_t q = 0; q < A.params.size(); ++q) if (q != pos && B.params[q] != A.params[q]) { h.log.viol("C09", "param/other_param_changed/" + op, "parameter " + esc(A.params[q].name) + " changed or moved"); return; }
    if (B.params[pos] != given) { Snap x, y; SGroup gx, gy; gx.params.push_back(given); gy.params.push_back(B.params[pos]); gx.lock = gy.lock = false; x.groups.push_back(gx); y.groups.push_back(gy);
        std::vector<std::string> d = diff(x, y, 3); std::string all; for (size_t i = 0; i < d.size(); ++i) if (d[i].compare(0, 5, "group") == 0) all += d[i];
        h.log.viol("C09", std::string("param/lookup_differs/") + (pi < 0 ? "appended" : "replaced") + "/" + op, "stored parameter differs from the given one: " + all); }
}

Param Hist::genParam(const std::string& name, std::string* descr) {
    std::string desc; int dl = rng.chance(60) ? 0 : rng.range(1, (int)o.geti("maxdesc", 127));
    for (int i = 0; i < dl; ++i) desc += (char)('a' + (i * 7 + dl) % 26);
    Param p(name, desc);
    int type = rng.range(0, 2);
    // shape
    std::vector<size_t> dims; int nd = rng.chance(70) ? rng.range(0, 2) : rng.range(3, type == 2 ? 6 : 7);
    size_t prod = 1;
    for (int i = 0; i < nd; ++i) { size_t e = (size_t)(rng.chance(12) ? 0 : rng.range(1, nd > 3 ? 2 : 4)); if (nd == 1 && rng.chance(8)) e = (size_t)rng.range(200, 255); dims.push_back(e); prod *= e; }
    if (nd == 0) prod = (size_t)(rng.chance(50) ? 1 : rng.range(0, 5));
    bool explicitDims = nd > 0;
    std::ostringstream d; d << "type=" << (type == 0 ? "int" : type == 1 ? "float" : "string") << " dims=" << (explicitDims ? dimsToStr(dims) : std::string("implicit")) << " n=" << prod << " desc=" << dl;
    // what C09 says a look-up returns afterwards: "the given type, dimensions, values" -- recorded from the INPUTS, not read back from p
    int expType = type == 0 ? (int)ezc3d::INT : type == 1 ? (int)ezc3d::FLOAT : (int)ezc3d::CHAR; std::vector<size_t> expDims; std::vector<int> expI; std::vector<uint32_t> expF; std::vector<std::string> expS; bool expFloatBits = true, expKnown = true;
    try {
    if (type == 0) { std::vector<int> v; for (size_t i = 0; i < prod; ++i) v.push_back(rng.chance(15) ? (rng.chance(50) ? 32767 : -32768) : rng.range(-3000, 3000));
        if (explicitDims) p.set(v, dims); else if (prod == 1 && rng.chance(50)) { if (v[0] >= 0 && rng.chance(40)) { static const size_t big[] = {0, 1, 255, 32767, 32768, 65535, 65536, 100000}; size_t sv = rng.chance(50) ? static_cast<size_t>(v[0]) : big[rng.below(8)]; if (sv > 32767) beyondInt16 = true; p.set(sv); v[0] = static_cast<int>(sv); { const std::vector<int>& got = p.valuesAsInt(); if (got.size() != 1 || got[0] != static_cast<int>(sv)) log.viol("C09", "set/size_t_value", "set(size_t " + std::to_string((unsigned long long)sv) + ") stores " + (got.empty() ? std::string("nothing") : std::to_string(got[0]))); } } else p.set(v[0]); } else p.set(v); expI = v; }
    else if (type == 1) { std::vector<float> v; for (size_t i = 0; i < prod; ++i) v.push_back(bitsf(genFloatBits(rng, specialFloats)));
        if (explicitDims) p.set(v, dims); else if (prod == 1 && rng.chance(50)) { expFloatBits = false; /* by-value float/double overloads: NaN payloads need not survive the call */ if (rng.chance(40)) p.set(static_cast<double>(v[0])); else p.set(v[0]); } else p.set(v); for (size_t i = 0; i < v.size(); ++i) expF.push_back(fbits(v[i])); }
    else { std::vector<std::string> v; bool wide = rng.chance(12); for (size_t i = 0; i < prod; ++i) { int l = rng.chance(15) ? 0 : rng.range(1, 12); if (wide && (i == 0 || rng.chance(10))) l = rng.range(120, 255); /* very uneven widths: long padding runs */ std::string s; for (int k = 0; k < l; ++k) s += (char)("ABCdef ghi_12"[rng.below(13)]); bool endBlank = rng.chance(8); /* a given value may END in blanks: stored as given (C09); a file cannot tell them from padding, so the round-trip comparison trims */ while (!endBlank && !s.empty() && s[s.size() - 1] == ' ') s[s.size() - 1] = 'z'; if (endBlank && !s.empty() && s.size() <= 250) s += std::string((size_t)rng.range(1, 3), ' '); if (!s.empty() && rng.chance(6)) s[s.size() - 1] = "\t\n\r\v\f"[rng.below(5)]; /* a cell may END in white space other than a blank: only blanks are padding */ v.push_back(s); }
        if (explicitDims) p.set(v, dims); else if (prod == 1 && rng.chance(50)) p.set(v[0]); else p.set(v); expS = v; }
    expDims = explicitDims ? dims : std::vector<size_t>(1, prod);
    if (type == 2) { size_t longest = 0; for (size_t i = 0; i < expS.size(); ++i) longest = std::max(longest, expS[i].size()); expDims.insert(expDims.begin(), longest); }
    } catch (const std::exception& e) { Outcome oc = classify(e); log.viol("C09", "set/consistent_refused/" + oc.cls, "while building a parameter: " + d.str() + ": " + oc.what); p.set(1); expKnown = false; }
    if (expKnown) { SParam st = takeParam(p); bump("c09_set_result_vs_inputs");
        bool fok = st.fv.size() == expF.size(); for (size_t i = 0; fok && i < expF.size(); ++i) if (st.fv[i] != expF[i] && (expFloatBits || !((expF[i] & 0x7f800000u) == 0x7f800000u && (expF[i] & 0x007fffffu)))) fok = false;
        if (st.type != expType || st.dims != expDims || st.iv != expI || !fok || st.sv != expS)
            log.viol("C09", std::string("set/stored_differs_from_given/") + (type == 0 ? "int" : type == 1 ? "float" : "string") + (st.type != expType ? "/type" : st.dims != expDims ? "/dims" : "/values"), "after set(" + d.str() + ") the parameter holds dims " + dimsToStr(st.dims) + (st.sv.empty() ? std::string() : " first string '" + esc(st.sv[0]) + "'")); }
    if (rng.chance(25)) p.lock();
    if (descr) *descr = d.str();
    return p;
}

bool Hist::opSetRate(bool analog) {
    static const float prs[] = {50.f, 100.f, 120.f, 200.f, 29.97f, 59.94f, 60.f, 250.f, 1000.f, 29.5f, 59.5f, 100.25f, 100.5f, 0.5f, 0.25f, 0.999f, 120.75f, 30.3f, 7.7f, 47.95f, 23.976f};   /* the last four: ratios that land a hair below an integer in float arithmetic */
    float pr = float0(prev, "POINT", "RATE"); float r;
    float arNow = float0(prev, "ANALOG", "RATE");
    if (!analog) { r = prs[rng.below(sizeof prs / sizeof prs[0])]; if (arNow != 0.f && arNow < 50000.f && !wild) r = arNow / (float)rng.range(1, (int)o.geti("maxsub", 6)); /* keep the sub-frame ratio small once the analog rate is known */ if (rng.chance(6)) r = 0.f; }
    else { float base = pr != 0.f ? pr : 100.f; r = base * (float)rng.range(1, (int)o.geti("maxsub", 6));
        { static const float fr[] = {30.3f, 7.7f, 47.95f, 23.976f, 30.3f, 47.95f}; static const int fk[] = {3, 3, 7, 15, 6, 14};   /* float ratios that land a hair below the integer */
          for (int q = 0; q < 6; ++q) if (base == fr[q] && rng.chance(45)) { r = base * (float)fk[q]; break; } } if (rng.chance(5)) r = 0.f; else if (rng.chance(7)) r = base * 0.4f; }   // 0.4: an analog rate below half the point rate (ratio rounds to 0)
    // rarely, before any frame exists: tens of thousands of sub-frames per frame (channels x sub-frames beyond 65 535 is more than a file can
    // say, but the three views of the object must still agree); no frame is added in such a history (see opFrame)
    if (analog && !wild && prev.frames.empty() && pr != 0.f && rng.chance(2)) { static const float big[] = {20000.f, 40000.f, 65536.f, 32768.f}; r = pr * big[rng.below(4)]; beyondInt16 = true; }
    // once frames are stored the sub-frame count is fixed by the data: a disciplined caller keeps ANALOG:RATE = POINT:RATE x sub-frames
    if (!wild && !prev.frames.empty()) {
        bool subs = false; for (size_t f = 0; f < prev.frames.size(); ++f) if (!prev.frames[f].subs.empty()) subs = true;
        if (!analog) return false;
        if (!subs || pr == 0.f) return false;
        r = pr * (float)prev.h.sub;
    }
    Param p("RATE"); p.set(std::vector<float>(1, r)); p.lock();
    const char* g = analog ? "ANALOG" : "POINT";
    SParam given = takeParam(p);
    log.pre("parameter"); Outcome oc; VF_TRY(oc, obj->parameter(g, p));
    std::ostringstream a; a << g << ":RATE=" << r;
    std::string opn = analog ? "set_analog_rate" : "set_point_rate";
    log.ev(opn, a.str(), oc); bump("op:" + opn);
    if (!wild && !oc.threw) { Snap cur = take(*obj); checkParamRelation(*this, opn, cur, g, given); }
    if (!wild && oc.threw) log.viol("C09", "param/valid_refused/" + opn + "/" + oc.cls, oc.what);
    afterMutator(opn, oc);
    return true;
}

bool Hist::opAddParam() {
    // group: existing custom, new custom, or one of the mandatory groups (custom parameter names only)
    std::vector<std::string> gnames; for (size_t g = 0; g < prev.groups.size(); ++g) if (!prev.groups[g].name.empty()) gnames.push_back(prev.groups[g].name);
    std::string group;
    int gsel = rng.range(0, 9);
    if (gsel < 4 || gnames.empty()) group = (gnames.size() < 9) ? freshName("Grp", gnames) : gnames[rng.below(gnames.size())];
    else group = gnames[rng.below(gnames.size())];
    if (o.profile == "c09" && !gnames.empty() && prev.groups.size() < 120 && rng.chance(8)) {
        // a group name that differs from an existing one by case only: group names are compared exactly, so this creates a NEW group
        std::string base = gnames[rng.below(gnames.size())], v = base; for (size_t i = 0; i < v.size(); ++i) v[i] = (char)(isupper((unsigned char)v[i]) ? tolower((unsigned char)v[i]) : toupper((unsigned char)v[i]));
        if (v != base && prev.findGroup(v) < 0) { group = v; caseVariantNames = true; }
    }
    if (prev.findGroup(group) < 0 && prev.groups.size() >= 127 && !gnames.empty()) group = gnames[rng.below(gnames.size())];   // group ids are positions: a 128th slot is beyond the format (refusal covered by C17)
    int gi = prev.findGroup(group);
    std::vector<std::string> pnames; if (gi >= 0) for (size_t q = 0; q < prev.groups[gi].params.size(); ++q) pnames.push_back(prev.groups[gi].params[q].name);
    static const char* managed[] = {"USED", "FRAMES", "LABELS", "DESCRIPTIONS", "UNITS", "SCALE", "OFFSET", "RATE", "DATA_START", "GEN_SCALE", "FORMAT", "BITS"};
    std::string name; bool replace = false;
    std::vector<std::string> customExisting;
    for (size_t i = 0; i < pnames.size(); ++i) { bool m = false; for (size_t k = 0; k < sizeof managed / sizeof managed[0]; ++k) if (upperS(pnames[i]) == managed[k]) m = true;
        if (!m || !(upperS(group) == "POINT" || upperS(group) == "ANALOG")) customExisting.push_back(pnames[i]); }
    if (!customExisting.empty() && rng.chance(40)) { name = customExisting[rng.below(customExisting.size())]; replace = true; }
    else { std::vector<std::string> taken = pnames; for (size_t k = 0; k < sizeof managed / sizeof managed[0]; ++k) taken.push_back(managed[k]); name = freshName("Prm", taken); }
    if (!replace && !customExisting.empty() && o.profile == "c09" && rng.chance(10)) {
        // a name that differs from an existing one by case only: names are compared exactly, so this is a NEW parameter (appended)
        std::string base = customExisting[rng.below(customExisting.size())], v = base; for (size_t i = 0; i < v.size(); ++i) v[i] = (char)(isupper((unsigned char)v[i]) ? tolower((unsigned char)v[i]) : toupper((unsigned char)v[i]));
        bool exists = false; for (size_t i = 0; i < pnames.size(); ++i) if (pnames[i] == v) exists = true;
        if (v != base && !exists) { name = v; caseVariantNames = true; }
    }
    if (!replace && !pnames.empty() && rng.chance(6)) {
        // a name that merely EXTENDS an existing one (LABELS2, USED_BY, RATE_X): a different parameter, appended
        std::string base = pnames[rng.below(pnames.size())], v = base + (rng.chance(50) ? "2" : "_X");
        bool exists = false; for (size_t i = 0; i < pnames.size(); ++i) if (upperS(pnames[i]) == upperS(v)) exists = true;
        if (!exists && v.size() < 100) name = v;
    }
    if (!replace && rng.chance(5)) {
        // ... or one of the names the library itself manages (in whatever group): DATA_START_FIELD, LABELS2, RATE_X are ordinary parameters
        static const char* mg[] = {"DATA_START", "DATA_START", "LABELS", "USED", "RATE", "FRAMES", "SCALE", "DESCRIPTIONS"}; static const char* sx[] = {"2", "_X", "_FIELD", "S"};
        std::string v = std::string(mg[rng.below(8)]) + sx[rng.below(4)];
        bool exists = false; for (size_t i = 0; i < pnames.size(); ++i) if (upperS(pnames[i]) == upperS(v)) exists = true;
        if (!exists) name = v;
    }
    int bad = rng.chance(12) ? rng.range(1, 2) : 0;          // 1 unnamed, 2 untyped
    std::string d; Param p = genParam(bad == 1 ? "" : name, &d);
    if (bad == 2) { p = Param(name, "untyped"); d = "untyped"; }
    SParam given = takeParam(p);
    log.pre("parameter"); Outcome oc; VF_TRY(oc, obj->parameter(group, p));
    std::ostringstream a; a << "group=\"" << esc(group) << "\"" << (gi < 0 ? "(new)" : "") << " name=\"" << esc(p.name()) << "\"" << (replace ? "(replace)" : "") << " " << d << " lock=" << p.isLocked();
    std::string opn = bad == 1 ? "add_param_unnamed" : bad == 2 ? "add_param_untyped" : "add_param";
    log.ev(opn, a.str(), oc); bump("op:" + opn);
    if (!wild) {
        if (bad && !oc.threw) log.viol("C09", "param/bad_accepted/" + opn, "accepted");
        if (bad == 1 && oc.threw && !satisfies(oc.cls, "invalid_argument")) log.viol("C09", "param/unnamed_wrong_class/" + oc.cls, oc.what);
        if (!bad && oc.threw) log.viol("C09", "param/valid_refused/" + opn + "/" + oc.cls, oc.what + " " + d);
        if (!bad && !oc.threw) { Snap cur = take(*obj); checkParamRelation(*this, opn, cur, group, given);
            // look it up the way a user would
            Outcome lo; SParam got; VF_TRY(lo, got = takeParam(obj->parameters().group(group).parameter(p.name())));
            if (lo.threw || got != given) log.viol("C09", "param/lookup_by_name/" + opn, lo.threw ? "look-up threw " + lo.cls : "look-up returns other content"); }
    }
    afterMutator(opn, oc);
    return true;
}

// Parameter::set with explicit dimensions on a stand-alone parameter (C09 consistency predicate), then optionally added.
bool Hist::opParamSet() {
    if (rng.chance(15)) {
        // re-shaping a parameter with ITS OWN values: p.set(p.valuesAs...(), dims).  The argument aliases the store that set() replaces.
        Param q("RESHAPE"); int t = rng.range(0, 2); size_t a = (size_t)rng.range(1, 4), b = (size_t)rng.range(1, 4); std::vector<size_t> dm; dm.push_back(a); dm.push_back(b);
        std::vector<int> vi; std::vector<float> vf; std::vector<std::string> vs;
        for (size_t i = 0; i < a * b; ++i) { vi.push_back(rng.range(-500, 500)); vf.push_back((float)rng.range(-500, 500) / 8.f); vs.push_back(std::string((size_t)rng.range(1, 6), (char)('a' + i % 26))); }
        Outcome oc;
        if (t == 0) { q.set(vi); VF_TRY(oc, q.set(q.valuesAsInt(), dm)); }
        else if (t == 1) { q.set(vf); VF_TRY(oc, q.set(q.valuesAsFloat(), dm)); }
        else { q.set(vs); VF_TRY(oc, q.set(q.valuesAsString(), dm)); }
        log.ev("param_reshape_with_own_values", std::string("type=") + (t == 0 ? "int" : t == 1 ? "float" : "string") + " dims=" + dimsToStr(dm), oc); bump("op:param_reshape_with_own_values"); bump("c09_set_consistent");
        SParam st = takeParam(q); bool same = t == 0 ? st.iv == vi : t == 1 ? st.fv.size() == vf.size() : st.sv == vs; if (t == 1 && same) for (size_t i = 0; i < vf.size(); ++i) if (st.fv[i] != fbits(vf[i])) same = false;
        if (oc.threw) log.viol("C09", "set/consistent_refused/" + oc.cls, "p.set(p.values(), dims) with a consistent shape: " + oc.what);
        else if (!same) log.viol("C09", "set/own_values_lost", std::string("after p.set(p.valuesAs") + (t == 0 ? "Int" : t == 1 ? "Float" : "String") + "(), " + dimsToStr(dm) + ") the parameter holds " + std::to_string((unsigned long long)(st.iv.size() + st.fv.size() + st.sv.size())) + " values instead of " + std::to_string((unsigned long long)(a * b)));
        return true;
    }
    Param p("SETPROBE", "before");
    int t0 = rng.range(0, 2);
    if (t0 == 0) p.set(std::vector<int>(3, 7)); else if (t0 == 1) p.set(std::vector<float>(2, 1.5f)); else p.set(std::vector<std::string>(2, "keep"));
    SParam before = takeParam(p);
    int type = rng.range(0, 2);
    std::vector<size_t> dims; int nd = rng.range(0, 7); size_t prod = 1;
    for (int i = 0; i < nd; ++i) { size_t e = (size_t)(rng.chance(15) ? 0 : rng.range(1, nd > 4 ? 2 : 4)); dims.push_back(e); prod *= e; }
    size_t n;
    int mode = rng.range(0, 5);   // 0,1 consistent; 2 one fewer; 3 one more; 4 empty data; 5 random
    if (mode <= 1) n = nd ? prod : (size_t)rng.range(0, 5); else if (mode == 2) n = (nd ? prod : 3) - ((nd ? prod : 3) ? 1 : 0); else if (mode == 3) n = (nd ? prod : 3) + 1; else if (mode == 4) n = 0; else n = (size_t)rng.range(0, 9);
    if (n > 600) n = 600;
    if (rng.chance(8)) { static const size_t tab[][3] = {{16, 16, 0}, {2, 128, 0}, {4, 64, 0}, {128, 2, 0}, {16, 4, 4}, {8, 32, 0}, {255, 255, 0}, {64, 4, 2}};
        const size_t* t = tab[rng.below(8)]; dims.clear(); prod = 1; for (int i = 0; i < 3 && t[i]; ++i) { dims.push_back(t[i]); prod *= t[i]; } nd = (int)dims.size(); n = rng.chance(70) ? 0 : (size_t)rng.range(1, 5); }   // products that are multiples of 256 (or large), mostly with no data at all
    bool expectOk;
    if (nd == 0) expectOk = true;
    else if (n == 0) expectOk = (prod == 0);
    else expectOk = (n == prod);
    Outcome oc; size_t longest = 0;
    if (type == 0) { std::vector<int> v; for (size_t i = 0; i < n; ++i) v.push_back(rng.range(-9, 9)); VF_TRY(oc, p.set(v, dims)); }
    else if (type == 1) { std::vector<float> v; for (size_t i = 0; i < n; ++i) v.push_back((float)rng.range(-9, 9)); VF_TRY(oc, p.set(v, dims)); }
    else { std::vector<std::string> v; for (size_t i = 0; i < n; ++i) { v.push_back(std::string((size_t)rng.range(0, 9), 'k') + std::string((size_t)(rng.chance(25) ? rng.range(1, 6) : 0), ' ')); longest = std::max(longest, v.back().size()); } VF_TRY(oc, p.set(v, dims)); }   /* some values end in blanks: the leading dimension is the longest RAW length */
    std::ostringstream a; a << "type=" << (type == 0 ? "int" : type == 1 ? "float" : "string") << " n=" << n << " dims=" << dimsToStr(dims) << " expect=" << (expectOk ? "ok" : "range_error");
    log.ev("param_set_dims", a.str(), oc); bump("op:param_set_dims"); bump(expectOk ? "c09_set_consistent" : "c09_set_inconsistent");
    SParam after = takeParam(p);
    if (expectOk && oc.threw) log.viol("C09", "set/consistent_refused/" + oc.cls, a.str());
    if (!expectOk && !oc.threw) log.viol("C09", "set/inconsistent_accepted", a.str());
    if (!expectOk && oc.threw && !satisfies(oc.cls, "range_error")) log.viol("C09", "set/wrong_class/" + oc.cls, a.str());
    if (oc.threw && after != before) log.viol("C09", "set/changed_after_refusal", a.str());
    if (oc.threw && after != before) log.viol("C10", "changed_after_refusal/param_set_dims/" + oc.cls + "/parameter", a.str());
    if (oc.threw && rng.chance(50)) {
        // the refused set() must have left the parameter usable: add it to the object (it is then saved/printed/destroyed by later operations)
        p.name("SETPROBE" + std::to_string(rng.range(0, 3)));
        std::string pg = "PROBES"; if (prev.findGroup(pg) < 0 && prev.groups.size() >= 127) pg = "FORCE_PLATFORM"; if (prev.findGroup(pg) < 0 && prev.groups.size() >= 127) pg = "POINT";   /* no 128th group slot (see DESIGN 9.7) */
        log.pre("parameter"); Outcome ao; VF_TRY(ao, obj->parameter(pg, p)); log.ev("add_param_after_refused_set", "name=" + p.name(), ao); bump("op:add_param_after_refused_set");
        afterMutator("add_param_after_refused_set", ao);
    }
    if (!oc.threw && rng.chance(30) && !(type == 2 && nd >= 7)) {     // (a string array with 7 explicit dimensions has 8 in all: beyond the format)
        p.name("SETOK" + std::to_string(rng.range(0, 3)));
        std::string pg = "PROBES"; if (prev.findGroup(pg) < 0 && prev.groups.size() >= 127) pg = "FORCE_PLATFORM"; if (prev.findGroup(pg) < 0 && prev.groups.size() >= 127) pg = "POINT";   /* no 128th group slot (a loaded file need not have FORCE_PLATFORM) */
        log.pre("parameter"); Outcome ao; VF_TRY(ao, obj->parameter(pg, p)); log.ev("add_param_after_accepted_set", "name=" + p.name() + " " + a.str(), ao); bump("op:add_param_after_accepted_set");
        afterMutator("add_param_after_accepted_set", ao);
    }
    if (!oc.threw) {
        bump("c11_typed_after_reset");
        const char* gn[3] = {"valuesAsInt", "valuesAsFloat", "valuesAsString"};
        for (int g = 0; g < 3; ++g) { if (g == type) continue; Outcome go;
            try { if (g == 0) (void)p.valuesAsInt().size(); else if (g == 1) (void)p.valuesAsFloat().size(); else (void)p.valuesAsString().size(); } catch (const std::exception& e) { go = classify(e); }
            if (!go.threw) log.viol("C11", std::string("typed/other_type_returned_after_reset/") + gn[g], a.str() + " (the parameter held " + (t0 == 0 ? "int" : t0 == 1 ? "float" : "string") + " values before)");
            else if (!satisfies(go.cls, "invalid_argument")) log.viol("C11", std::string("typed/other_type_wrong_class_after_reset/") + gn[g] + "/" + go.cls, a.str()); }
        { Outcome bo; try { (void)p.valuesAsByte().size(); } catch (const std::exception& e) { bo = classify(e); } if (!bo.threw) log.viol("C11", "typed/other_type_returned_after_reset/valuesAsByte", a.str()); }
    }
    if (!oc.threw) {
        std::vector<size_t> want = nd ? dims : std::vector<size_t>(1, n);
        if (type == 2) want.insert(want.begin(), longest);
        int wt = type == 0 ? (int)ezc3d::INT : type == 1 ? (int)ezc3d::FLOAT : (int)ezc3d::CHAR;
        size_t got = type == 0 ? after.iv.size() : type == 1 ? after.fv.size() : after.sv.size();
        if (after.dims != want || after.type != wt || got != n) log.viol("C09", "set/stored_shape", a.str() + " stored dims=" + dimsToStr(after.dims) + " type=" + std::to_string(after.type));
    }
    return true;
}

// A parameter OF THE OBJECT ITSELF handed to parameter() by reference, into a new or another existing group (the reference must stay valid
// while the group array grows).
bool Hist::opSelfParam() {
    std::vector<size_t> gs; for (size_t g = 0; g < prev.groups.size(); ++g) if (!prev.groups[g].name.empty() && !prev.groups[g].params.empty()) gs.push_back(g);
    if (gs.empty()) return false;
    size_t g = gs[rng.below(gs.size())]; size_t pi = rng.below(prev.groups[g].params.size());
    const SParam& sp = prev.groups[g].params[pi];
    if (sp.iv.size() + sp.fv.size() > 4000) return false;     // bulk parameters are not duplicated (the section must stay within 255 blocks)
    static const char* managed[] = {"USED", "FRAMES", "LABELS", "DESCRIPTIONS", "UNITS", "SCALE", "OFFSET", "RATE", "DATA_START", "GEN_SCALE", "FORMAT", "BITS"};
    std::vector<std::string> gnames; for (size_t k = 0; k < prev.groups.size(); ++k) if (!prev.groups[k].name.empty()) gnames.push_back(prev.groups[k].name);
    std::string target;
    if (rng.chance(65) && prev.groups.size() < 127) target = freshName("Cpy", gnames);
    else { target = gnames[rng.below(gnames.size())]; std::string ut = target; for (size_t i = 0; i < ut.size(); ++i) ut[i] = (char)toupper((unsigned char)ut[i]);
        if (ut == "POINT" || ut == "ANALOG") for (size_t k = 0; k < sizeof managed / sizeof managed[0]; ++k) if (sp.name == managed[k]) return false; }
    { int tg = prev.findGroup(target); if (tg >= 0) for (size_t q = 0; q < prev.groups[tg].params.size(); ++q) { const std::string& en = prev.groups[tg].params[q].name; if (en != sp.name && upperS(en) == upperS(sp.name)) return false; } }   /* two names equal but for case are not representable in a file */
    if (sp.name.empty() || sp.type == ezc3d::NONE || sp.name == "DATA_START") return false;   /* (the writer treats ANY parameter named DATA_START as the data pointer; observation in DESIGN 9) */
    log.pre("parameter", "self"); Outcome oc; VF_TRY(oc, obj->parameter(target, obj->parameters().group(g).parameter(pi)));
    log.ev("self_param", "from=\"" + esc(prev.groups[g].name) + ":" + esc(sp.name) + "\" into=\"" + esc(target) + "\"" + (prev.findGroup(target) < 0 ? "(new)" : ""), oc); bump("op:self_param");
    if (!wild) { if (oc.threw) log.viol("C09", "param/valid_refused/self_param/" + oc.cls, oc.what);
        else { Snap cur = take(*obj); int gi = cur.findGroup(target); const SParam* got = gi >= 0 && cur.groups[gi].find(sp.name) >= 0 ? &cur.groups[gi].params[cur.groups[gi].find(sp.name)] : 0;
            if (!got || *got != sp) log.viol("C09", "param/self_reference_copy_differs", "a parameter of the object handed back by reference is not stored with the same content"); } }
    afterMutator("self_param", oc);
    return true;
}

// Copy a parameter out of the object, rename it (and its description) with the SETTERS, add it back: a new parameter under the new name.
bool Hist::opRenameCopy() {
    std::vector<std::pair<size_t, size_t> > cand;
    static const char* managed[] = {"USED", "FRAMES", "LABELS", "DESCRIPTIONS", "UNITS", "SCALE", "OFFSET", "RATE", "DATA_START", "GEN_SCALE", "FORMAT", "BITS"};
    for (size_t g = 0; g < prev.groups.size(); ++g) { if (prev.groups[g].name.empty()) continue; for (size_t q = 0; q < prev.groups[g].params.size(); ++q) { bool m = false; for (size_t k = 0; k < sizeof managed / sizeof managed[0]; ++k) if (upperS(prev.groups[g].params[q].name) == managed[k]) m = true; if (!m && !prev.groups[g].params[q].name.empty()) cand.push_back(std::make_pair(g, q)); } }
    if (cand.empty()) return false;
    std::pair<size_t, size_t> c = cand[rng.below(cand.size())];
    const SGroup& G = prev.groups[c.first]; const SParam& sp = G.params[c.second];
    if (sp.iv.size() + sp.fv.size() > 4000) return false;     // bulk parameters are not duplicated (the section must stay within 255 blocks)
    Param copy(obj->parameters().group(c.first).parameter(c.second));
    std::vector<std::string> taken; for (size_t q = 0; q < G.params.size(); ++q) taken.push_back(G.params[q].name);
    std::string nn;
    if (rng.chance(60)) { // same length as the old name (only some characters differ)
        for (int tries = 0; tries < 50 && nn.empty(); ++tries) { std::string v = sp.name; for (size_t i = 0; i < v.size(); ++i) if (rng.chance(60)) v[i] = (char)("ABCDEFGHJKMNPQRSTUVWXYZ23456789"[rng.below(30)]); bool clash = false; for (size_t q = 0; q < taken.size(); ++q) if (upperS(taken[q]) == upperS(v)) clash = true; if (!clash) nn = v; }
    }
    if (nn.empty()) nn = freshName("Ren", taken);
    copy.name(nn); std::string nd = rng.chance(50) ? std::string("renamed copy of ") + sp.name.substr(0, 40) : sp.desc; copy.description(nd);
    if (rng.chance(30)) { if (copy.isLocked()) copy.unlock(); else copy.lock(); }
    SParam given = takeParam(copy);
    log.pre("parameter", "renamed_copy"); Outcome oc; VF_TRY(oc, obj->parameter(G.name, copy));
    log.ev("add_renamed_copy", "group=\"" + esc(G.name) + "\" from=\"" + esc(sp.name) + "\" as=\"" + esc(nn) + "\"", oc); bump("op:add_renamed_copy");
    if (!wild) { if (oc.threw) log.viol("C09", "param/valid_refused/add_renamed_copy/" + oc.cls, oc.what);
        else { Snap cur = take(*obj); int gi = cur.findGroup(G.name); if (gi < 0 || cur.groups[gi].params.size() != G.params.size() + 1 || cur.groups[gi].params.back() != given) { std::ostringstream dd; dd << "a renamed copy of " << esc(sp.name) << " was not appended as " << esc(nn) << " with the given content: group index " << gi << " params " << (gi >= 0 ? cur.groups[gi].params.size() : 0) << " (had " << G.params.size() << ")"; if (gi >= 0 && !cur.groups[gi].params.empty()) { const SParam& b = cur.groups[gi].params.back(); dd << " last=" << esc(b.name) << " type " << b.type << "/" << given.type << " dims " << dimsToStr(b.dims) << "/" << dimsToStr(given.dims) << " desc " << b.desc.size() << "/" << given.desc.size() << " lock " << b.lock << "/" << given.lock << " n " << b.iv.size() << "," << b.fv.size() << "," << b.sv.size() << "/" << given.iv.size() << "," << given.fv.size() << "," << given.sv.size(); } log.viol("C09", "param/renamed_copy_not_appended", dd.str()); } } }
    afterMutator("add_renamed_copy", oc);
    return true;
}

bool Hist::opLock() {
    std::vector<std::string> gnames; for (size_t g = 0; g < prev.groups.size(); ++g) if (!prev.groups[g].name.empty()) gnames.push_back(prev.groups[g].name);
    bool absent = rng.chance(15) || gnames.empty();
    std::string group = absent ? freshName("NoSuchGroup", gnames) : gnames[rng.below(gnames.size())];
    if (!absent && rng.chance(8)) { std::string v = group; for (size_t i = 0; i < v.size(); ++i) v[i] = (char)tolower((unsigned char)v[i]); if (v != group && prev.findGroup(v) < 0) { group = v; absent = true; } }
    bool lock = rng.chance(50);
    log.pre("lockGroup"); Outcome oc; if (lock) VF_TRY(oc, obj->lockGroup(group)); else VF_TRY(oc, obj->unlockGroup(group));
    std::string opn = lock ? "lock_group" : "unlock_group";
    log.ev(opn, "group=\"" + esc(group) + "\"" + (absent ? " (absent)" : ""), oc); bump("op:" + opn);
    if (!wild) {
        bump("c09_lock_checked");
        if (absent && !oc.threw) log.viol("C09", "lock/absent_accepted", group);
        if (absent && oc.threw && !satisfies(oc.cls, "invalid_argument")) log.viol("C09", "lock/absent_wrong_class/" + oc.cls, oc.what);
        if (!absent && oc.threw) log.viol("C09", "lock/valid_refused/" + oc.cls, oc.what);
        if (!absent && !oc.threw) { Snap cur = take(*obj); Snap want = prev; want.groups[want.findGroup(group)].lock = lock;
            if (cur != want) { std::vector<std::string> d = diff(want, cur, 4); std::string all; for (size_t i = 0; i < d.size(); ++i) all += d[i] + "; "; log.viol("C09", "lock/changed_more_than_flag/" + opn, all); } }
    }
    afterMutator(opn, oc);
    return true;
}

}  // namespace vf
