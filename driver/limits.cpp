// C17: content at the format's limits survives; beyond them saving refuses (or the file still loads to the same content).
#include "common.h"
#include "snap.h"
#include "hist.h"
#include <memory>
#include <sstream>
#include <sys/stat.h>
#include <unistd.h>

namespace vf {

typedef ezc3d::ParametersNS::GroupNS::Parameter Param;

struct Lim { const char* name; long limit; };
static const Lim LIMS[] = {
    {"param_description_length", 255}, {"param_name_length", 127}, {"param_name_length_locked", 127}, {"group_name_length", 127},
    {"extent_int", 255}, {"extent_float", 255}, {"extent_string_count", 255}, {"extent_string_width", 255},
    {"points", 255}, {"channels", 255}, {"frames", 32767}, {"int_value_high", 32767}, {"int_value_low", -32768},
    {"parameter_blocks", 255}, {"record_next_offset", 65535}, {"string_table_entries_255_wide", 255}, {"parameter_record_bytes", 255 * 512 - 1},
    {"analog_samples_per_frame", 65535}, {"frames_appended_to_a_loaded_object", 1000000},
};
static const int NLIMS = sizeof LIMS / sizeof LIMS[0];

static long fileSize(const std::string& p) { struct stat sb; return stat(p.c_str(), &sb) == 0 ? (long)sb.st_size : -1; }

static void ensureRates(ezc3d::c3d& c, bool analog) {
    { Param r("RATE"); r.set(std::vector<float>(1, 100.f)); c.parameter("POINT", r); }
    if (analog) { Param a("RATE"); a.set(std::vector<float>(1, 100.f)); c.parameter("ANALOG", a); }
}

static void addFillers(ezc3d::c3d& c, long T) {
    long left = T; int kk = 0;
    while (left > 0) { long sl = left > 30000 ? 30000 : left; left -= sl; Param p("BF" + std::to_string(kk++)); std::vector<std::string> d; for (long q = 0; q < sl / 200; ++q) d.push_back(std::string(200, 'b')); if (sl % 200) d.push_back(std::string((size_t)(sl % 200), 'b')); if (d.empty()) d.push_back("x"); p.set(d); c.parameter("BLK", p); }
}

// apply one limit dimension with value v to the object under construction
static void applyLimit(ezc3d::c3d& c, int lim, long v, const std::string& scratch) {
    switch (lim) {
        case 0: { Param p("DESCP", std::string((size_t)v, 'd')); p.set(1); c.parameter("LIM", p); break; }
        case 1: { Param p(std::string((size_t)v, 'N')); p.set(2); c.parameter("LIM", p); break; }
        case 2: { Param p(std::string((size_t)v, 'L')); p.set(2); p.lock(); c.parameter("LIM", p); break; }
        case 3: { Param p("INGROUP"); p.set(3); c.parameter(std::string((size_t)v, 'G'), p); break; }
        case 4: { Param p("EXTI"); std::vector<int> d; for (long i = 0; i < v; ++i) d.push_back((int)(i % 1000) - 500); p.set(d); c.parameter("LIM", p); break; }
        case 5: { Param p("EXTF"); std::vector<float> d; for (long i = 0; i < v; ++i) d.push_back(0.5f * i); p.set(d); c.parameter("LIM", p); break; }
        case 6: { Param p("EXTS"); std::vector<std::string> d; for (long i = 0; i < v; ++i) d.push_back("s" + std::to_string(i % 97)); p.set(d); c.parameter("LIM", p); break; }
        case 7: { Param p("EXTW"); std::vector<std::string> d; d.push_back(std::string((size_t)v, 'w')); d.push_back("short"); p.set(d); c.parameter("LIM", p); break; }
        case 8: { ensureRates(c, false); for (long i = 0; i < v; ++i) c.point("P" + std::to_string(i)); break; }      // frames are added by finishData()
        case 9: { ensureRates(c, true); for (long i = 0; i < v; ++i) c.analog("C" + std::to_string(i)); break; }
        case 10: { ensureRates(c, false); c.point("ONLY"); ezc3d::DataNS::Frame fr; ezc3d::DataNS::Points3dNS::Points pts; ezc3d::DataNS::Points3dNS::Point p; p.name("ONLY"); p.x(1); p.y(2); p.z(3); pts.point(p); fr.add(pts);
            for (long i = 0; i < v; ++i) { fr.points_nonConst().point_nonConst(0).x((float)i); c.frame(fr); } break; }
        case 11: case 12: { Param p(lim == 11 ? "INTHI" : "INTLO"); std::vector<int> d; d.push_back((int)v); d.push_back(1); d.push_back(-1); p.set(d); c.parameter("LIM", p); break; }
        case 13: { // fillers until the parameter section takes exactly v blocks (measured on saves of the parameters alone)
            long T = 0;
            for (int iter = 0; iter < 600; ++iter) {
                ezc3d::c3d probe; addFillers(probe, T); probe.write(scratch);
                long blocks = (fileSize(scratch) - 512) / 512;
                if (blocks == v) break;
                if (blocks < v) T += (v - blocks) * 512 > 1200 ? (v - blocks) * 512 - 900 : 200; else T -= 100;
                if (T < 0) T = 0;
            }
            addFillers(c, T); if (c.parameters().group("POINT").parameter("USED").valuesAsInt()[0] == 0) applyLimit(c, 8, 3, scratch); break; }   // plus a little data, so a wrong block count is observable
        case 17: { // one channel, v sub-frames per frame: the header word "analog samples per frame" holds v (16 bits)
            { Param r("RATE"); r.set(std::vector<float>(1, 1.f)); c.parameter("POINT", r); Param a("RATE"); a.set(std::vector<float>(1, (float)v)); c.parameter("ANALOG", a); }
            c.analog("ONLY_CHANNEL");
            ezc3d::DataNS::Frame fr; ezc3d::DataNS::AnalogsNS::Analogs an; for (long s = 0; s < v; ++s) { ezc3d::DataNS::AnalogsNS::SubFrame sf; ezc3d::DataNS::AnalogsNS::Channel ch; ch.name("ONLY_CHANNEL"); ch.data(0.5f + (float)(s % 1000)); sf.channel(ch); an.subframe(sf); }
            fr.add(an); c.frame(fr); break; }
        case 18: { // (objects loaded from a file, --start) v more frames, copies of the first one
            if (c.data().nbFrames() == 0) break;
            for (long i = 0; i < v; ++i) { ezc3d::DataNS::Frame fr; fr.add(c.data().frame(0)); c.frame(fr); } break; }
        case 16: { // the records of the parameter section take exactly v bytes; the end marker needs one more, so 255 blocks hold 130 559 (130 560 = a section that ends exactly on the block boundary)
            if (c.parameters().group("POINT").parameter("USED").valuesAsInt()[0] == 0) applyLimit(c, 8, 3, scratch);   // a little data first (its labels are parameters too); a missing end marker is then observable
            { Param sd("SEED"); sd.set(1); c.parameter("LIM", sd); }
            int kk = 0;
            for (;;) { long now = (long)paramSectionBytes(take(c)); long r = v - now; if (r <= 60000) break;
                Param p("FL" + std::to_string(kk++)); std::vector<size_t> dm; dm.push_back(250); dm.push_back(30); p.set(std::vector<float>(7500, 2.5f), dm); c.parameter("LIM", p); }
            { long now = (long)paramSectionBytes(take(c)); long rem = v - now - (7 + 4 + 2); if (rem < 0) throw std::runtime_error("limit case 16: object already larger than the target");
              long n = rem / 255, dl = rem - n * 255; Param p("TUNE", std::string((size_t)dl, 't')); std::vector<std::string> d; for (long i = 0; i < n; ++i) d.push_back(std::string(255, 'u')); if (n == 0) { d.push_back(""); std::vector<size_t> dm; dm.push_back(0); p.set(std::vector<std::string>(), dm); /* dims [0,0] */ } else p.set(d); c.parameter("LIM", p);
              long got = (long)paramSectionBytes(take(c)); if (got != v) throw std::runtime_error("limit case 16: built " + std::to_string(got) + " bytes instead of " + std::to_string(v)); }
            break; }
        case 15: { // v strings of 255 characters in ONE parameter: up to 65 025 characters, more elements than 16 bits (signed) count
            Param p("TABLE"); std::vector<std::string> d; for (long i = 0; i < v; ++i) d.push_back(std::string(255, (char)('a' + i % 26))); p.set(d); c.parameter("LIM", p);
            Param after("AFTER_TABLE"); after.set(7); c.parameter("LIM", after); break; }
        case 14: { // one record whose next-offset word must hold v: 7 + data + description length, data = 65280 bytes of ints [255,128]
            long desc = v - 7 - 65280; if (desc < 0) desc = 0;
            Param p("BIGREC", std::string((size_t)desc, 'r')); std::vector<int> d(255 * 128, 3); for (size_t i = 0; i < d.size(); ++i) d[i] = (int)(i % 30000); std::vector<size_t> dims; dims.push_back(255); dims.push_back(128); p.set(d, dims); c.parameter("LIM", p);
            Param after("AFTER_BIG"); after.set(42); c.parameter("LIM", after); break; }
    }
}

// two frames the README way for whatever points/channels were declared (when no frame exists yet)
static void finishData(ezc3d::c3d& c) {
    if (c.data().nbFrames() > 0) return;
    size_t np = (size_t)c.parameters().group("POINT").parameter("USED").valuesAsInt()[0], nc = c.header().nbAnalogs(), ns = c.header().nbAnalogByFrame();
    if (np == 0 && nc == 0) return;
    std::vector<std::string> labels = c.parameters().group("POINT").parameter("LABELS").valuesAsString();
    for (int f = 0; f < 2; ++f) {
        ezc3d::DataNS::Frame fr; ezc3d::DataNS::Points3dNS::Points pts;
        for (size_t i = 0; i < np; ++i) { ezc3d::DataNS::Points3dNS::Point p; p.name(i < labels.size() ? labels[i] : "?"); p.x((float)i + 0.1f); /* first data byte non-zero */ p.y((float)f); p.z(1.f); p.residual(0.5f); pts.point(p); }
        ezc3d::DataNS::AnalogsNS::Analogs an;
        for (size_t s = 0; s < ns; ++s) { ezc3d::DataNS::AnalogsNS::SubFrame sf; for (size_t i = 0; i < nc; ++i) { ezc3d::DataNS::AnalogsNS::Channel ch; ch.data((float)i + f); sf.channel(ch); } an.subframe(sf); }
        fr.add(pts, an); c.frame(fr);
    }
}

static std::vector<long> levelsOf(int lim) {
    long L = LIMS[lim].limit; std::vector<long> v;
    if (lim == 12) { v.push_back(L + 1); v.push_back(L); v.push_back(L - 1); v.push_back(-40000); v.push_back(-2147483647L - 1); return v; }
    v.push_back(L - 1); v.push_back(L); v.push_back(L + 1);
    switch (lim) { case 0: v.push_back(300); break; case 1: case 2: case 3: v.push_back(200); v.push_back(255); v.push_back(256); break; case 4: case 5: case 6: case 7: v.push_back(300); v.push_back(512); break;
        case 8: case 9: v.push_back(300); break; case 10: v.push_back(40000); break; case 11: v.push_back(40000); v.push_back(65535); v.push_back(2147483647L); break; case 13: v.push_back(258); break; case 14: v.push_back(65540); break; case 15: v.push_back(128); v.push_back(129); break; }
    if (lim == 18) { v.clear(); v.push_back(1); v.push_back(2); v.push_back(5); }
    return v;
}

struct LCase { int a; long va; int b; long vb; };   // b = -1: single

static std::vector<LCase> allCases(bool pairs) {
    std::vector<LCase> cs;
    for (int l = 0; l < NLIMS; ++l) { std::vector<long> lv = levelsOf(l); for (size_t i = 0; i < lv.size(); ++i) { LCase c = {l, lv[i], -1, 0}; cs.push_back(c); } }
    if (pairs) {
        static const int light[] = {0, 1, 2, 3, 4, 5, 6, 7, 8, 9, 11, 12, 14};
        for (size_t i = 0; i < sizeof light / sizeof light[0]; ++i) for (size_t j = i + 1; j < sizeof light / sizeof light[0]; ++j) {
            int a = light[i], b = light[j];
            if ((a == 1 && b == 2)) continue;
            LCase both = {a, LIMS[a].limit, b, LIMS[b].limit}; cs.push_back(both);                                     // both exactly at their limit
            long ba = a == 12 ? LIMS[a].limit - 1 : LIMS[a].limit + 1, bb = b == 12 ? LIMS[b].limit - 1 : LIMS[b].limit + 1;
            LCase x = {a, ba, b, LIMS[b].limit}; cs.push_back(x);                                                          // first beyond, second at
            LCase y = {a, LIMS[a].limit, b, bb}; cs.push_back(y);                                                          // first at, second beyond
        }
        LCase heavy1 = {10, 32767, 13, 255}; cs.push_back(heavy1);
        LCase heavy2 = {10, 32767, 0, 255}; cs.push_back(heavy2);
    }
    return cs;
}

static bool within(int lim, long v) { return lim == 12 ? v >= LIMS[lim].limit : v <= LIMS[lim].limit; }

void runLimits(const Opts& o, long idx, CaseLog& log) {
    std::vector<LCase> cs = allCases(o.geti("pairs", 1) != 0);
    if (o.geti("count", 0)) { log.line("RES count %zu", cs.size()); return; }
    if (idx < 0 || (size_t)idx >= cs.size()) { log.line("RES %ld skipped", idx); return; }
    const LCase& k = cs[idx];
    std::string desc = std::string(LIMS[k.a].name) + "=" + std::to_string(k.va) + (k.b >= 0 ? std::string("+") + LIMS[k.b].name + "=" + std::to_string(k.vb) : std::string());
    bool allWithin = within(k.a, k.va) && (k.b < 0 || within(k.b, k.vb));
    std::string which = !within(k.a, k.va) ? LIMS[k.a].name : (k.b >= 0 && !within(k.b, k.vb)) ? LIMS[k.b].name : "";
    char fp[700], sp[700]; snprintf(fp, sizeof fp, "%s/lim_%ld.c3d", o.out.c_str(), idx); snprintf(sp, sizeof sp, "%s/scratch_%ld.c3d", o.out.c_str(), idx);
    // --start FILE: the limit content is added to an object loaded from that file (group ids with gaps, frame numbers up to 65535 ...)
    std::string start = o.get("start");
    if (!start.empty() && (k.a == 8 || k.a == 9 || k.a == 10 || k.a == 13 || k.a == 16 || k.a == 17)) { log.line("RES %ld %s skipped_for_loaded_start within=%d", idx, desc.c_str(), allWithin ? 1 : 0); return; }
    std::unique_ptr<ezc3d::c3d> holder; try { holder.reset(start.empty() ? new ezc3d::c3d() : new ezc3d::c3d(start)); } catch (const std::exception& e) { log.line("RES %ld %s start_file_refused within=%d", idx, desc.c_str(), allWithin ? 1 : 0); return; }
    ezc3d::c3d& c = *holder;
    Outcome bo; log.pre("build", desc);
    try { applyLimit(c, k.a, k.va, sp); if (k.b >= 0) applyLimit(c, k.b, k.vb, sp); finishData(c); } catch (const std::exception& e) { bo = classify(e); }
    unlink(sp);
    log.ev("build", desc, bo);
    if (bo.threw) {
        // the API itself refused the content: fine beyond a limit, a violation at or below it
        if (allWithin) log.viol("C17", std::string("at_limit/") + LIMS[k.a].name + "/api_refused", desc + ": " + bo.cls + " " + bo.what);
        log.line("RES %ld %s build_refused within=%d", idx, desc.c_str(), allWithin ? 1 : 0); return;
    }
    if (o.geti("lockgroups", 0)) { for (size_t g = 0; g < c.parameters().nbGroups(); ++g) { const std::string gn = c.parameters().group(g).name(); if (!gn.empty() && gn != "POINT" && gn != "ANALOG" && gn != "FORCE_PLATFORM") { try { c.lockGroup(gn); } catch (const std::exception&) {} } } desc += "+locked_groups"; }
    Snap a = take(c);
    Outcome so; log.pre("write", desc); VF_TRY(so, c.write(fp)); log.ev("save", desc, so);
    if (so.threw) {
        if (allWithin) log.viol("C17", std::string("at_limit/") + LIMS[k.a].name + (k.b >= 0 ? std::string("+") + LIMS[k.b].name : std::string()) + "/save_refused", desc + ": " + so.cls + " " + so.what);
        log.line("RES %ld %s save_refused within=%d", idx, desc.c_str(), allWithin ? 1 : 0); unlink(fp); return;
    }
    std::unique_ptr<ezc3d::c3d> l; Outcome lo; log.pre("load", desc); VF_TRY(lo, l.reset(new ezc3d::c3d(fp))); log.ev("load", desc, lo);
    std::string verdict;
    if (lo.threw) {
        verdict = "reload_fails";
        if (allWithin) log.viol("C17", std::string("at_limit/") + LIMS[k.a].name + (k.b >= 0 ? std::string("+") + LIMS[k.b].name : std::string()) + "/reload_fails", desc + ": " + lo.cls + " " + lo.what);
        else log.viol("C17", "beyond_limit/" + which + "/saved_silently_then_reload_fails", desc + ": write() returned normally, loading the file throws " + lo.cls + " (" + lo.what.substr(0, 80) + ")");
    } else {
        Snap b = take(*l);
        std::vector<std::string> d = contentDiff(a, b, ContentOpts(), 6);
        if (d.empty()) verdict = "equal";
        else { verdict = "differs"; std::string all; for (size_t i = 0; i < d.size(); ++i) all += d[i] + "; ";
            if (allWithin) log.viol("C17", std::string("at_limit/") + LIMS[k.a].name + (k.b >= 0 ? std::string("+") + LIMS[k.b].name : std::string()) + "/content_differs", desc + ": " + all);
            else log.viol("C17", "beyond_limit/" + which + "/saved_silently_loads_to_other_content", desc + ": write() returned normally, the file loads to: " + all); }
    }
    log.line("RES %ld %s saved %s within=%d", idx, desc.c_str(), verdict.c_str(), allWithin ? 1 : 0);
    unlink(fp);
}

}  // namespace vf
