// Verification driver: workloads + online monitors for melund/ezc3d.  See /verif/DESIGN.md.
#include "common.h"
#include "hist.h"
#include <cstdio>
#include <cstring>
#include <string>

namespace vf {
void runLoadDump(const Opts&, long, CaseLog&);
void runGenerations(const Opts&, long, CaseLog&);
int modeMain(const Opts& o);
}

int main(int argc, char** argv) {
    vf::Opts o;
    if (argc < 2) { fprintf(stderr, "usage: c3d_driver <mode> [--key value]...\n"); return 2; }
    o.mode = argv[1];
    for (int i = 2; i < argc; ++i) {
        std::string a = argv[i];
        if (a.compare(0, 2, "--") != 0) { fprintf(stderr, "bad arg %s\n", a.c_str()); return 2; }
        std::string k = a.substr(2), v = "1";
        if (k == "wild") { o.wild = true; continue; } if (k == "verbose") { o.verbose = true; continue; } if (k == "dump-final") { o.dumpFinal = true; continue; } if (k == "nofork") { o.nofork = true; continue; }
        if (i + 1 < argc) v = argv[++i];
        if (k == "seed") o.seed = strtoull(v.c_str(), 0, 10); else if (k == "from") o.from = atol(v.c_str()); else if (k == "to") o.to = atol(v.c_str());
        else if (k == "out") o.out = v; else if (k == "profile") o.profile = v; else if (k == "maxops") o.maxops = atoi(v.c_str()); else if (k == "timeout") o.timeout = atoi(v.c_str());
        else if (k == "list") o.list = v; else o.kv[k] = v;
    }
    if (o.out.empty()) { fprintf(stderr, "--out required\n"); return 2; }
    return vf::modeMain(o);
}
