#include "common.h"
#include "hist.h"
namespace vf {
int modeMain(const Opts& o) {
    if (o.mode == "hist") return runCases(o, runHistCase);
    fprintf(stderr, "unknown mode %s\n", o.mode.c_str());
    return 2;
}
}
