#include "common.h"
#include "hist.h"
namespace vf {
void runLoadDump(const Opts&, long, CaseLog&);
void runGenerations(const Opts&, long, CaseLog&);
void runResidue(const Opts&, long, CaseLog&);
void runC12Api(const Opts&, long, CaseLog&);
void runFaults(const Opts&, long, CaseLog&);
void runDamage(const Opts&, long, CaseLog&);
void runLimits(const Opts&, long, CaseLog&);
void runThreadsRound(const Opts&, long, CaseLog&);
void runSaveSeq(const Opts&, long, CaseLog&);
void runFpProbe(const Opts&, long, CaseLog&);
void runSizedSave(const Opts&, long, CaseLog&);
void runPlainSave(const Opts&, long, CaseLog&);
int modeMain(const Opts& o) {
    if (o.mode == "hist") return runCases(o, runHistCase);
    if (o.mode == "loaddump") return runCases(o, runLoadDump);
    if (o.mode == "gens") return runCases(o, runGenerations);
    if (o.mode == "residue") return runCases(o, runResidue);
    if (o.mode == "c12api") return runCases(o, runC12Api);
    if (o.mode == "faults") return runCases(o, runFaults);
    if (o.mode == "damage") return runCases(o, runDamage);
    if (o.mode == "limits") return runCases(o, runLimits);
    if (o.mode == "threads") return runCases(o, runThreadsRound);
    if (o.mode == "saveseq") return runCases(o, runSaveSeq);
    if (o.mode == "fpprobe") return runCases(o, runFpProbe);
    if (o.mode == "sizedsave") return runCases(o, runSizedSave);
    if (o.mode == "plainsave") return runCases(o, runPlainSave);
    fprintf(stderr, "unknown mode %s\n", o.mode.c_str());
    return 2;
}
}
