#include "snap.h"
#include <algorithm>
#include <set>

namespace vf {

static void rtrim(std::string& s) { while (!s.empty() && s[s.size() - 1] == ' ') s.erase(s.size() - 1); }
static std::string upper(std::string s) { for (size_t i = 0; i < s.size(); ++i) s[i] = (char)toupper((unsigned char)s[i]); return s; }

SParam takeParam(const ezc3d::ParametersNS::GroupNS::Parameter& Q) {
    SParam p;
    p.name = Q.name(); p.desc = Q.description(); p.lock = Q.isLocked(); p.type = (int)Q.type();
    p.dims = Q.dimension();
    if (Q.type() == ezc3d::CHAR) p.sv = Q.valuesAsString();
    else if (Q.type() == ezc3d::BYTE) p.iv = Q.valuesAsByte();
    else if (Q.type() == ezc3d::INT) p.iv = Q.valuesAsInt();
    else if (Q.type() == ezc3d::FLOAT) { const std::vector<float>& v = Q.valuesAsFloat(); p.fv.resize(v.size()); for (size_t i = 0; i < v.size(); ++i) p.fv[i] = fbits(v[i]); }
    return p;
}

SFrame takeFrame(const ezc3d::DataNS::Frame& F) {
    SFrame f;
    const ezc3d::DataNS::Points3dNS::Points& P = F.points();
    f.pts.resize(P.nbPoints());
    for (size_t i = 0; i < P.nbPoints(); ++i) {
        const ezc3d::DataNS::Points3dNS::Point& pt = P.point(i);
        f.pts[i].name = pt.name();
        f.pts[i].v[0] = fbits(pt.x()); f.pts[i].v[1] = fbits(pt.y()); f.pts[i].v[2] = fbits(pt.z()); f.pts[i].v[3] = fbits(pt.residual());
    }
    const ezc3d::DataNS::AnalogsNS::Analogs& A = F.analogs();
    f.subs.resize(A.nbSubframes());
    for (size_t s = 0; s < A.nbSubframes(); ++s) {
        const ezc3d::DataNS::AnalogsNS::SubFrame& S = A.subframe(s);
        f.subs[s].resize(S.nbChannels());
        for (size_t k = 0; k < S.nbChannels(); ++k) { f.subs[s][k].name = S.channel(k).name(); f.subs[s][k].v = fbits(S.channel(k).data()); }
    }
    return f;
}

Snap take(const ezc3d::c3d& c) {
    Snap s;
    const ezc3d::Header& h = c.header();
    s.h.zeros = h.nbOfZerosBeforeHeader(); s.h.paramAddr = h.parametersAddress(); s.h.checksum = h.checksum();
    s.h.nPts = h.nb3dPoints(); s.h.nMeas = h.nbAnalogsMeasurement(); s.h.nAnalogs = h.nbAnalogs();
    s.h.first = h.firstFrame(); s.h.last = h.lastFrame(); s.h.nbFrames = h.nbFrames(); s.h.gap = h.nbMaxInterpGap();
    s.h.scale = h.scaleFactor(); s.h.dataStart = h.dataStart(); s.h.sub = h.nbAnalogByFrame(); s.h.rate = fbits(h.frameRate());
    s.h.klp = h.keyLabelPresent(); s.h.fbk = h.firstBlockKeyLabel(); s.h.fcp = h.fourCharPresent(); s.h.nev = h.nbEvents();
    s.h.e1 = h.emptyBlock1(); s.h.e2 = h.emptyBlock2(); s.h.e3 = h.emptyBlock3(); s.h.e4 = h.emptyBlock4();
    const std::vector<float>& et = h.eventsTime();
    for (size_t i = 0; i < et.size(); ++i) s.h.etimes.push_back(fbits(et[i]));
    s.h.edisp = h.eventsDisplay();
    s.h.elab = h.eventsLabel();
    const ezc3d::ParametersNS::Parameters& P = c.parameters();
    s.ph.start = P.parametersStart(); s.ph.checksum = P.checksum(); s.ph.nblk = P.nbParamBlock(); s.ph.proc = P.processorType();
    s.groups.resize(P.nbGroups());
    for (size_t g = 0; g < P.nbGroups(); ++g) {
        const ezc3d::ParametersNS::GroupNS::Group& G = P.group(g);
        SGroup& sg = s.groups[g];
        sg.name = G.name(); sg.desc = G.description(); sg.lock = G.isLocked();
        sg.params.reserve(G.nbParameters());
        for (size_t p = 0; p < G.nbParameters(); ++p) sg.params.push_back(takeParam(G.parameter(p)));
    }
    const ezc3d::DataNS::Data& D = c.data();
    s.frames.resize(D.nbFrames());
    for (size_t f = 0; f < D.nbFrames(); ++f) s.frames[f] = takeFrame(D.frame(f));
    return s;
}

std::string hexs(const std::string& s) {
    static const char* d = "0123456789abcdef";
    std::string o; o.reserve(s.size() * 2);
    for (size_t i = 0; i < s.size(); ++i) { unsigned char c = (unsigned char)s[i]; o += d[c >> 4]; o += d[c & 15]; }
    return o;
}
std::string esc(const std::string& s) {
    std::string o; char b[8];
    for (size_t i = 0; i < s.size(); ++i) {
        unsigned char c = (unsigned char)s[i];
        if (c > 0x20 && c < 0x7f && c != '%' && c != '"' && c != '\\') o += (char)c;
        else { snprintf(b, sizeof b, "%%%02x", c); o += b; }
    }
    return o;
}

static void jstr(std::ostringstream& o, const std::string& s) { o << '"' << hexs(s) << '"'; }

std::string toJson(const Snap& s, bool withData) {
    std::ostringstream o;
    const SHeader& h = s.h;
    o << "{\"h\":{\"zeros\":" << h.zeros << ",\"paramAddr\":" << h.paramAddr << ",\"checksum\":" << h.checksum << ",\"nPts\":" << h.nPts
      << ",\"nMeas\":" << h.nMeas << ",\"nAnalogs\":" << h.nAnalogs << ",\"first\":" << h.first << ",\"last\":" << h.last
      << ",\"nbFrames\":" << h.nbFrames << ",\"gap\":" << h.gap << ",\"dataStart\":" << h.dataStart << ",\"sub\":" << h.sub
      << ",\"scale\":" << h.scale << ",\"rate\":" << h.rate << ",\"klp\":" << h.klp << ",\"fbk\":" << h.fbk << ",\"fcp\":" << h.fcp
      << ",\"nev\":" << h.nev << ",\"e1\":" << h.e1 << ",\"e2\":" << h.e2 << ",\"e3\":" << h.e3 << ",\"e4\":" << h.e4 << ",\"etimes\":[";
    for (size_t i = 0; i < h.etimes.size(); ++i) o << (i ? "," : "") << h.etimes[i];
    o << "],\"edisp\":[";
    for (size_t i = 0; i < h.edisp.size(); ++i) o << (i ? "," : "") << h.edisp[i];
    o << "],\"elab\":[";
    for (size_t i = 0; i < h.elab.size(); ++i) { o << (i ? "," : ""); jstr(o, h.elab[i]); }
    o << "]},\"ph\":{\"start\":" << s.ph.start << ",\"checksum\":" << s.ph.checksum << ",\"nblk\":" << s.ph.nblk << ",\"proc\":" << s.ph.proc << "},\"groups\":[";
    for (size_t g = 0; g < s.groups.size(); ++g) {
        const SGroup& G = s.groups[g];
        o << (g ? "," : "") << "{\"name\":"; jstr(o, G.name); o << ",\"desc\":"; jstr(o, G.desc); o << ",\"lock\":" << (G.lock ? 1 : 0) << ",\"params\":[";
        for (size_t p = 0; p < G.params.size(); ++p) {
            const SParam& Q = G.params[p];
            o << (p ? "," : "") << "{\"name\":"; jstr(o, Q.name); o << ",\"desc\":"; jstr(o, Q.desc);
            o << ",\"lock\":" << (Q.lock ? 1 : 0) << ",\"type\":" << Q.type << ",\"dims\":[";
            for (size_t i = 0; i < Q.dims.size(); ++i) o << (i ? "," : "") << Q.dims[i];
            o << "],\"v\":[";
            if (Q.type == ezc3d::CHAR) for (size_t i = 0; i < Q.sv.size(); ++i) { o << (i ? "," : ""); jstr(o, Q.sv[i]); }
            else if (Q.type == ezc3d::FLOAT) for (size_t i = 0; i < Q.fv.size(); ++i) o << (i ? "," : "") << Q.fv[i];
            else for (size_t i = 0; i < Q.iv.size(); ++i) o << (i ? "," : "") << Q.iv[i];
            o << "]}";
        }
        o << "]}";
    }
    o << "],\"nframes\":" << s.frames.size();
    if (withData) {
        // data compactly: point names / channel names once per frame only if they differ from frame 0
        o << ",\"frames\":[";
        for (size_t f = 0; f < s.frames.size(); ++f) {
            const SFrame& F = s.frames[f];
            o << (f ? "," : "") << "{\"pn\":[";
            bool sameNames = f > 0 && F.pts.size() == s.frames[0].pts.size();
            if (sameNames) for (size_t i = 0; i < F.pts.size(); ++i) if (F.pts[i].name != s.frames[0].pts[i].name) { sameNames = false; break; }
            if (sameNames && f > 0) o << "0";
            else for (size_t i = 0; i < F.pts.size(); ++i) { o << (i ? "," : ""); jstr(o, F.pts[i].name); }
            o << "],\"p\":[";
            for (size_t i = 0; i < F.pts.size(); ++i) o << (i ? "," : "") << F.pts[i].v[0] << "," << F.pts[i].v[1] << "," << F.pts[i].v[2] << "," << F.pts[i].v[3];
            o << "],\"cn\":[";
            for (size_t k = 0; !F.subs.empty() && k < F.subs[0].size(); ++k) { o << (k ? "," : ""); jstr(o, F.subs[0][k].name); }
            o << "],\"a\":[";
            for (size_t sidx = 0; sidx < F.subs.size(); ++sidx) {
                o << (sidx ? "," : "") << "[";
                for (size_t k = 0; k < F.subs[sidx].size(); ++k) o << (k ? "," : "") << F.subs[sidx][k].v;
                o << "]";
            }
            o << "]}";
        }
        o << "]";
    }
    o << "}";
    return o.str();
}

std::string frameSig(const SFrame& f) {
    std::ostringstream o;
    o << "np=" << f.pts.size() << " nsf=" << f.subs.size() << " nch=" << (f.subs.empty() ? 0 : f.subs[0].size());
    return o.str();
}

#define DPUSH(path) do { if (out.size() < maxn) out.push_back(path); else return out; } while (0)

static std::string dimsStr(const std::vector<size_t>& d) { std::ostringstream o; o << "["; for (size_t i = 0; i < d.size(); ++i) o << (i ? "," : "") << d[i]; o << "]"; return o.str(); }

static std::string paramDiffDetail(const SParam& a, const SParam& b) {
    std::ostringstream o;
    if (a.name != b.name) o << " name:" << esc(a.name) << "!=" << esc(b.name);
    if (a.type != b.type) o << " type:" << a.type << "!=" << b.type;
    if (a.dims != b.dims) o << " dims:" << dimsStr(a.dims) << "!=" << dimsStr(b.dims);
    if (a.lock != b.lock) o << " lock:" << a.lock << "!=" << b.lock;
    if (a.desc != b.desc) o << " desc(len " << a.desc.size() << " vs " << b.desc.size() << ")";
    if (a.iv != b.iv) { o << " ints(n " << a.iv.size() << " vs " << b.iv.size() << ")"; for (size_t i = 0; i < a.iv.size() && i < b.iv.size(); ++i) if (a.iv[i] != b.iv[i]) { o << "[" << i << "]:" << a.iv[i] << "!=" << b.iv[i]; break; } }
    if (a.fv != b.fv) { o << " floats(n " << a.fv.size() << " vs " << b.fv.size() << ")"; for (size_t i = 0; i < a.fv.size() && i < b.fv.size(); ++i) if (a.fv[i] != b.fv[i]) { char t[64]; snprintf(t, sizeof t, "[%zu]:%08x!=%08x", i, a.fv[i], b.fv[i]); o << t; break; } }
    if (a.sv != b.sv) { o << " strings(n " << a.sv.size() << " vs " << b.sv.size() << ")"; for (size_t i = 0; i < a.sv.size() && i < b.sv.size(); ++i) if (a.sv[i] != b.sv[i]) { o << "[" << i << "]:\"" << esc(a.sv[i]) << "\"!=\"" << esc(b.sv[i]) << "\""; break; } }
    return o.str();
}

static std::string hdrDiff(const SHeader& a, const SHeader& b, bool layout) {
    std::ostringstream o;
#define HF(f) if (a.f != b.f) o << " " #f ":" << a.f << "!=" << b.f;
    HF(nPts) HF(nMeas) HF(nAnalogs) HF(first) HF(last) HF(nbFrames) HF(gap) HF(sub) HF(scale) HF(rate) HF(klp) HF(fbk) HF(fcp) HF(nev)
    if (layout) { HF(zeros) HF(paramAddr) HF(checksum) HF(dataStart) HF(e1) HF(e2) HF(e3) HF(e4) }
#undef HF
    if (a.etimes != b.etimes) o << " etimes";
    if (a.edisp != b.edisp) o << " edisp";
    if (a.elab != b.elab) o << " elab";
    return o.str();
}

static std::string frameDiff(const SFrame& a, const SFrame& b) {
    std::ostringstream o;
    if (a.pts.size() != b.pts.size()) o << " npts:" << a.pts.size() << "!=" << b.pts.size();
    for (size_t i = 0; i < a.pts.size() && i < b.pts.size(); ++i) if (a.pts[i] != b.pts[i]) {
        o << " pt[" << i << "]";
        if (a.pts[i].name != b.pts[i].name) o << ".name:" << esc(a.pts[i].name) << "!=" << esc(b.pts[i].name);
        static const char* cn[4] = {"x", "y", "z", "residual"};
        for (int k = 0; k < 4; ++k) if (a.pts[i].v[k] != b.pts[i].v[k]) { char t[64]; snprintf(t, sizeof t, ".%s:%08x!=%08x", cn[k], a.pts[i].v[k], b.pts[i].v[k]); o << t; }
        break;
    }
    if (a.subs.size() != b.subs.size()) o << " nsub:" << a.subs.size() << "!=" << b.subs.size();
    for (size_t s = 0; s < a.subs.size() && s < b.subs.size(); ++s) {
        if (a.subs[s].size() != b.subs[s].size()) { o << " sub[" << s << "].nch:" << a.subs[s].size() << "!=" << b.subs[s].size(); break; }
        bool brk = false;
        for (size_t k = 0; k < a.subs[s].size(); ++k) if (a.subs[s][k] != b.subs[s][k]) {
            char t[96]; snprintf(t, sizeof t, " sub[%zu].ch[%zu]:%s/%08x!=%s/%08x", s, k, esc(a.subs[s][k].name).c_str(), a.subs[s][k].v, esc(b.subs[s][k].name).c_str(), b.subs[s][k].v); o << t; brk = true; break;
        }
        if (brk) break;
    }
    return o.str();
}

std::vector<std::string> diff(const Snap& a, const Snap& b, size_t maxn) {
    std::vector<std::string> out;
    if (!(a.h == b.h)) DPUSH("header:" + hdrDiff(a.h, b.h, true));
    if (!(a.ph == b.ph)) DPUSH("params.prologue");
    if (a.groups.size() != b.groups.size()) { std::ostringstream o; o << "groups.count:" << a.groups.size() << "!=" << b.groups.size(); DPUSH(o.str()); }
    for (size_t g = 0; g < a.groups.size() && g < b.groups.size(); ++g) {
        const SGroup& A = a.groups[g]; const SGroup& B = b.groups[g];
        if (A == B) continue;
        std::ostringstream o; o << "group[" << g << "](" << esc(A.name) << ")";
        if (A.name != B.name) DPUSH(o.str() + ".name:" + esc(A.name) + "!=" + esc(B.name));
        if (A.desc != B.desc) DPUSH(o.str() + ".desc");
        if (A.lock != B.lock) DPUSH(o.str() + ".lock");
        if (A.params.size() != B.params.size()) { std::ostringstream q; q << o.str() << ".nparams:" << A.params.size() << "!=" << B.params.size(); DPUSH(q.str()); }
        for (size_t p = 0; p < A.params.size() && p < B.params.size(); ++p) if (A.params[p] != B.params[p]) {
            std::ostringstream q; q << o.str() << ".param[" << p << "](" << esc(A.params[p].name) << "):" << paramDiffDetail(A.params[p], B.params[p]); DPUSH(q.str());
        }
    }
    if (a.frames.size() != b.frames.size()) { std::ostringstream o; o << "frames.count:" << a.frames.size() << "!=" << b.frames.size(); DPUSH(o.str()); }
    for (size_t f = 0; f < a.frames.size() && f < b.frames.size(); ++f) if (a.frames[f] != b.frames[f]) {
        std::ostringstream o; o << "frame[" << f << "]:" << frameDiff(a.frames[f], b.frames[f]); DPUSH(o.str());
    }
    return out;
}

static SParam normParam(const SParam& p, bool upperName) {
    SParam q = p; if (upperName) q.name = upper(q.name);
    for (size_t i = 0; i < q.sv.size(); ++i) rtrim(q.sv[i]);
    return q;
}

std::vector<std::string> contentDiff(const Snap& a, const Snap& b, const ContentOpts& opt, size_t maxn) {
    std::vector<std::string> out;
    {
        SHeader x = a.h, y = b.h;
        if (x.nMeas == 0 && y.nMeas == 0 && x.nAnalogs == 0 && y.nAnalogs == 0) x.sub = y.sub;   // no channel in use: sub-frame count not observable
        if (!opt.headerEvents) { x.etimes = y.etimes; x.edisp = y.edisp; x.elab = y.elab; x.nev = y.nev; }
        std::string d = hdrDiff(x, y, false);
        if (!d.empty()) DPUSH("header:" + d);
    }
    // groups by upper-cased name among named groups
    std::vector<const SGroup*> A, B;
    for (size_t i = 0; i < a.groups.size(); ++i) if (!a.groups[i].name.empty()) A.push_back(&a.groups[i]);
    for (size_t i = 0; i < b.groups.size(); ++i) if (!b.groups[i].name.empty()) B.push_back(&b.groups[i]);
    if (A.size() != B.size()) { std::ostringstream o; o << "groups.count(named):" << A.size() << "!=" << B.size(); DPUSH(o.str()); }
    for (size_t i = 0; i < A.size(); ++i) {
        const SGroup* m = 0;
        for (size_t j = 0; j < B.size(); ++j) if (B[j]->name == upper(A[i]->name)) { m = B[j]; break; }   // names are stored upper-cased: the loaded name must be exactly that
        std::string gp = "group(" + esc(A[i]->name) + ")";
        if (!m) { DPUSH(gp + ":missing"); continue; }
        if (A[i]->desc != m->desc) DPUSH(gp + ".desc");
        if (A[i]->lock != m->lock) DPUSH(gp + ".lock");
        if (A[i]->params.size() != m->params.size()) { std::ostringstream o; o << gp << ".nparams:" << A[i]->params.size() << "!=" << m->params.size(); DPUSH(o.str()); }
        for (size_t p = 0; p < A[i]->params.size(); ++p) {
            SParam x = normParam(A[i]->params[p], true);
            const SParam* y0 = 0;
            for (size_t q = 0; q < m->params.size(); ++q) if (m->params[q].name == x.name) { y0 = &m->params[q]; break; }
            std::string pp = gp + ".param(" + esc(x.name) + ")";
            if (!y0) { DPUSH(pp + ":missing"); continue; }
            SParam y = normParam(*y0, false);
            if (opt.ignoreDataStartValue && upper(A[i]->name) == "POINT" && x.name == "DATA_START") { x.iv.clear(); y.iv.clear(); }
            if (x != y) DPUSH(pp + ":" + paramDiffDetail(x, y));
        }
    }
    if (a.frames.size() != b.frames.size()) { std::ostringstream o; o << "frames.count:" << a.frames.size() << "!=" << b.frames.size(); DPUSH(o.str()); }
    for (size_t f = 0; f < a.frames.size() && f < b.frames.size(); ++f) {
        SFrame x = a.frames[f], y = b.frames[f];
        // sub-frames that hold no channel store nothing: their number is not observable in a file
        { size_t sx = 0, sy = 0; for (size_t s = 0; s < x.subs.size(); ++s) sx += x.subs[s].size(); for (size_t s = 0; s < y.subs.size(); ++s) sy += y.subs[s].size();
          if (sx == 0 && sy == 0) { x.subs.clear(); y.subs.clear(); } }
        // channel names: a caller may leave channels unnamed (README); then the loaded name is the label
        if (x.subs.size() == y.subs.size())
            for (size_t s = 0; s < x.subs.size(); ++s) if (x.subs[s].size() == y.subs[s].size())
                for (size_t k = 0; k < x.subs[s].size(); ++k) if (x.subs[s][k].name.empty() || !opt.channelNames) { y.subs[s][k].name.clear(); x.subs[s][k].name.clear(); }
        if (x != y) { std::ostringstream o; o << "frame[" << f << "]:" << frameDiff(x, y); DPUSH(o.str()); }
    }
    return out;
}

static inline void hmix(uint64_t& h, uint64_t v) { h ^= v + 0x9e3779b97f4a7c15ULL + (h << 6) + (h >> 2); }
static inline void hstr(uint64_t& h, const std::string& s) { uint64_t x = 1469598103934665603ULL; for (size_t i = 0; i < s.size(); ++i) { x ^= (unsigned char)s[i]; x *= 1099511628211ULL; } hmix(h, x); hmix(h, s.size()); }

uint64_t hashSnap(const Snap& s) {
    uint64_t h = 7;
    const SHeader& H = s.h;
    size_t hv[] = {H.zeros, H.paramAddr, H.checksum, H.nPts, H.nMeas, H.nAnalogs, H.first, H.last, H.nbFrames, H.gap, H.dataStart, H.sub, (size_t)H.scale, H.rate, H.klp, H.fbk, H.fcp, H.nev, (size_t)H.e1, (size_t)H.e2, (size_t)H.e3, (size_t)H.e4};
    for (size_t i = 0; i < sizeof hv / sizeof hv[0]; ++i) hmix(h, hv[i]);
    for (size_t i = 0; i < H.etimes.size(); ++i) hmix(h, H.etimes[i]);
    for (size_t i = 0; i < H.edisp.size(); ++i) hmix(h, H.edisp[i]);
    for (size_t i = 0; i < H.elab.size(); ++i) hstr(h, H.elab[i]);
    hmix(h, s.ph.start); hmix(h, s.ph.checksum); hmix(h, s.ph.nblk); hmix(h, s.ph.proc);
    for (size_t g = 0; g < s.groups.size(); ++g) {
        const SGroup& G = s.groups[g]; hstr(h, G.name); hstr(h, G.desc); hmix(h, G.lock);
        for (size_t p = 0; p < G.params.size(); ++p) {
            const SParam& Q = G.params[p]; hstr(h, Q.name); hstr(h, Q.desc); hmix(h, Q.lock); hmix(h, (uint64_t)Q.type);
            for (size_t i = 0; i < Q.dims.size(); ++i) hmix(h, Q.dims[i]);
            for (size_t i = 0; i < Q.iv.size(); ++i) hmix(h, (uint64_t)Q.iv[i]);
            for (size_t i = 0; i < Q.fv.size(); ++i) hmix(h, Q.fv[i]);
            for (size_t i = 0; i < Q.sv.size(); ++i) hstr(h, Q.sv[i]);
        }
    }
    hmix(h, s.frames.size());
    for (size_t f = 0; f < s.frames.size(); ++f) {
        const SFrame& F = s.frames[f];
        hmix(h, F.pts.size());
        for (size_t i = 0; i < F.pts.size(); ++i) { hstr(h, F.pts[i].name); for (int k = 0; k < 4; ++k) hmix(h, F.pts[i].v[k]); }
        hmix(h, F.subs.size());
        for (size_t q = 0; q < F.subs.size(); ++q) { hmix(h, F.subs[q].size()); for (size_t k = 0; k < F.subs[q].size(); ++k) { hstr(h, F.subs[q][k].name); hmix(h, F.subs[q][k].v); } }
    }
    return h;
}

std::string shapeSig(const Snap& s) {
    std::ostringstream o;
    size_t np = 0, nsf = 0, nch = 0, gaps = 0;
    for (size_t f = 0; f < s.frames.size(); ++f) {
        if (s.frames[f].empty()) { ++gaps; continue; }
        np = s.frames[f].pts.size(); nsf = s.frames[f].subs.size(); nch = nsf ? s.frames[f].subs[0].size() : 0;
    }
    size_t nparams = 0; for (size_t g = 0; g < s.groups.size(); ++g) nparams += s.groups[g].params.size();
    o << "f" << s.frames.size() << "p" << np << "s" << nsf << "c" << nch << "g" << s.groups.size() << "q" << nparams << "x" << gaps;
    return o.str();
}

}  // namespace vf
