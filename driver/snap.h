// Snapshot of everything observable of an ezc3d::c3d through const public accessors only.
#pragma once
#include "ezc3d.h"
#include <cstdint>
#include <cstdio>
#include <cstring>
#include <string>
#include <vector>
#include <sstream>

namespace vf {

inline uint32_t fbits(float f) { uint32_t u; memcpy(&u, &f, 4); return u; }
inline float bitsf(uint32_t u) { float f; memcpy(&f, &u, 4); return f; }

struct SParam {
    std::string name, desc;
    bool lock;
    int type;                       // ezc3d::DATA_TYPE value
    std::vector<size_t> dims;
    std::vector<int> iv;            // BYTE / INT
    std::vector<uint32_t> fv;       // FLOAT (bit patterns)
    std::vector<std::string> sv;    // CHAR
    bool operator==(const SParam& o) const {
        return name == o.name && desc == o.desc && lock == o.lock && type == o.type && dims == o.dims &&
               iv == o.iv && fv == o.fv && sv == o.sv;
    }
    bool operator!=(const SParam& o) const { return !(*this == o); }
};
struct SGroup {
    std::string name, desc;
    bool lock;
    std::vector<SParam> params;
    bool operator==(const SGroup& o) const { return name == o.name && desc == o.desc && lock == o.lock && params == o.params; }
    bool operator!=(const SGroup& o) const { return !(*this == o); }
    int find(const std::string& n) const { for (size_t i = 0; i < params.size(); ++i) if (params[i].name == n) return (int)i; return -1; }
};
struct SPoint {
    std::string name; uint32_t v[4];
    bool operator==(const SPoint& o) const { return name == o.name && !memcmp(v, o.v, sizeof v); }
    bool operator!=(const SPoint& o) const { return !(*this == o); }
};
struct SChan {
    std::string name; uint32_t v;
    bool operator==(const SChan& o) const { return name == o.name && v == o.v; }
    bool operator!=(const SChan& o) const { return !(*this == o); }
};
struct SFrame {
    std::vector<SPoint> pts;
    std::vector<std::vector<SChan> > subs;
    bool operator==(const SFrame& o) const { return pts == o.pts && subs == o.subs; }
    bool operator!=(const SFrame& o) const { return !(*this == o); }
    bool empty() const { return pts.empty() && subs.empty(); }
};
struct SHeader {
    size_t zeros, paramAddr, checksum, nPts, nMeas, nAnalogs, first, last, nbFrames, gap, dataStart, sub;
    int scale;
    uint32_t rate;
    size_t klp, fbk, fcp, nev;
    int e1, e2, e3, e4;
    std::vector<uint32_t> etimes;
    std::vector<size_t> edisp;
    std::vector<std::string> elab;
    bool operator==(const SHeader& o) const {
        return zeros == o.zeros && paramAddr == o.paramAddr && checksum == o.checksum && nPts == o.nPts &&
               nMeas == o.nMeas && nAnalogs == o.nAnalogs && first == o.first && last == o.last &&
               nbFrames == o.nbFrames && gap == o.gap && dataStart == o.dataStart && sub == o.sub &&
               scale == o.scale && rate == o.rate && klp == o.klp && fbk == o.fbk && fcp == o.fcp &&
               nev == o.nev && e1 == o.e1 && e2 == o.e2 && e3 == o.e3 && e4 == o.e4 &&
               etimes == o.etimes && edisp == o.edisp && elab == o.elab;
    }
};
struct SPHdr {
    size_t start, checksum, nblk, proc;
    bool operator==(const SPHdr& o) const { return start == o.start && checksum == o.checksum && nblk == o.nblk && proc == o.proc; }
};
struct Snap {
    SHeader h;
    SPHdr ph;
    std::vector<SGroup> groups;
    std::vector<SFrame> frames;
    bool operator==(const Snap& o) const { return h == o.h && ph == o.ph && groups == o.groups && frames == o.frames; }
    bool operator!=(const Snap& o) const { return !(*this == o); }
    int findGroup(const std::string& n) const { for (size_t i = 0; i < groups.size(); ++i) if (groups[i].name == n) return (int)i; return -1; }
    const SParam* param(const std::string& g, const std::string& p) const {
        int gi = findGroup(g); if (gi < 0) return 0; int pi = groups[gi].find(p); if (pi < 0) return 0; return &groups[gi].params[pi];
    }
};

SParam takeParam(const ezc3d::ParametersNS::GroupNS::Parameter& Q);
SFrame takeFrame(const ezc3d::DataNS::Frame& F);
Snap take(const ezc3d::c3d& c);

// hex / json helpers
std::string hexs(const std::string& s);
std::string esc(const std::string& s);           // printable escape for logs
std::string toJson(const Snap& s, bool withData = true);
std::string frameSig(const SFrame& f);

// human readable list of differing field paths (at most maxn)
std::vector<std::string> diff(const Snap& a, const Snap& b, size_t maxn = 12);
// content comparison for round trips (C01/C04): returns differing paths. Groups/params are matched by
// upper-cased name among named groups; strings right-trimmed; layout fields ignored.
struct ContentOpts { bool headerEvents; bool ignoreDataStartValue; bool channelNames; ContentOpts() : headerEvents(true), ignoreDataStartValue(true), channelNames(true) {} };
std::vector<std::string> contentDiff(const Snap& a, const Snap& b, const ContentOpts& o = ContentOpts(), size_t maxn = 12);
uint64_t hashSnap(const Snap& s);
std::string shapeSig(const Snap& s);

}  // namespace vf
