// C18: independent objects used from different threads.  One case = one round: T threads released from a barrier, each running an
// independent seeded job (construct, edit, save to its own path, load own and SHARED input files, failing loads, destroy).  The section
// hook of the library (guard MELUND_EZC3D_VERIF) stamps a global sequence number and perturbs the schedule; afterwards the same jobs
// are re-run alone and the digests compared.  Data races are reported by ThreadSanitizer (tsan flavour) on stderr.
#include "common.h"
#include "snap.h"
#include <atomic>
#include <thread>
#include <mutex>
#include <condition_variable>
#include <memory>
#include <sstream>
#include <set>
#include <unistd.h>
#include <sched.h>
#include <locale>
#include <clocale>
#include <cfenv>
#include <sys/stat.h>

namespace vf {

typedef ezc3d::ParametersNS::GroupNS::Parameter Param;

static std::atomic<unsigned long> g_seq(0);
static std::atomic<int> g_perturb(0);
struct Stamp { unsigned long seq; int site; };
static thread_local std::vector<Stamp>* t_stamps = 0;
static thread_local Rng* t_rng = 0;

static void threadHook(int site, unsigned long, unsigned long) {
    if (site == 1) {   // READ: very frequent; only an occasional yield
        if (t_rng && g_perturb.load(std::memory_order_relaxed) && t_rng->below(400) == 0) sched_yield();
        return;
    }
    unsigned long s = g_seq.fetch_add(1, std::memory_order_relaxed);   // relaxed: the monitor must not introduce happens-before edges between the threads it watches
    if (t_stamps) { Stamp st = {s, site}; t_stamps->push_back(st); }
    if (t_rng && g_perturb.load(std::memory_order_relaxed)) { int k = (int)t_rng->below(10); if (k < 4) sched_yield(); else if (k < 7) usleep((useconds_t)t_rng->below(200)); }
}

struct Barrier { std::mutex m; std::condition_variable cv; int n, waiting; Barrier(int n_) : n(n_), waiting(0) {} void wait() { std::unique_lock<std::mutex> l(m); if (++waiting == n) cv.notify_all(); else cv.wait(l, [this] { return waiting >= n; }); } };

static uint64_t classHash(const Outcome& o) { return fnv(o.cls); }

// the job: deterministic in (seed, round, tid); returns a digest of everything it observed
static uint64_t job(uint64_t seed, long round, int tid, const std::string& dir, const std::string& tag, const std::vector<std::string>& shared, std::string* trace) {
    Rng r(seed, (uint64_t)round * 131 + (uint64_t)tid);
    uint64_t dg = 1469598103934665603ULL;
    std::ostringstream tr;
#define MIX(x) do { dg = (dg ^ (uint64_t)(x)) * 1099511628211ULL; } while (0)
    int np = r.range(0, 5), nc = r.range(0, 3), ns = r.range(1, 3), nf = r.range(0, 6);
    {
        ezc3d::c3d c;
        { Param p("RATE"); p.set(std::vector<float>(1, 100.f)); c.parameter("POINT", p); Param a("RATE"); a.set(std::vector<float>(1, 100.f * ns)); c.parameter("ANALOG", a); }
        // a description of thread-dependent length on the first POINT parameter: every later record (POINT:DATA_START among them) then sits at a
        // different byte offset in every thread's file, so state shared between concurrent saves cannot go unnoticed by coincidence
        { Param u("USED", std::string((size_t)(1 + (tid * 7 + (int)(round % 5)) % 60), 'u')); u.set(0); u.lock(); c.parameter("POINT", u); }
        for (int i = 0; i < np; ++i) c.point("P" + std::to_string(i) + "_" + std::to_string(tid));
        for (int i = 0; i < nc; ++i) c.analog("A" + std::to_string(i));
        if (np + nc > 0) for (int f = 0; f < nf; ++f) {
            ezc3d::DataNS::Frame fr; ezc3d::DataNS::Points3dNS::Points pts;
            for (int i = 0; i < np; ++i) { ezc3d::DataNS::Points3dNS::Point p; p.name("P" + std::to_string(i) + "_" + std::to_string(tid)); p.x((float)r.range(-999, 999)); p.y((float)f); p.z((float)tid); p.residual(0.25f * i); pts.point(p); }
            ezc3d::DataNS::AnalogsNS::Analogs an;
            if (nc) for (int s = 0; s < ns; ++s) { ezc3d::DataNS::AnalogsNS::SubFrame sf; for (int k = 0; k < nc; ++k) { ezc3d::DataNS::AnalogsNS::Channel ch; ch.name("A" + std::to_string(k)); ch.data((float)r.range(-5000, 5000) / 7.f); sf.channel(ch); } an.subframe(sf); }
            fr.add(pts, an); c.frame(fr);
        }
        for (int k = 0; k < r.range(0, 3); ++k) { Param p("CUSTOM" + std::to_string(k), "thread " + std::to_string(tid)); if (r.chance(50)) p.set(std::vector<int>((size_t)r.range(0, 9), tid)); else p.set(std::vector<std::string>((size_t)r.range(1, 4), "v" + std::to_string(r.range(0, 99)))); c.parameter("THREAD", p); }
        // refused calls
        { Outcome oc; VF_TRY(oc, c.lockGroup("NO_SUCH_GROUP")); MIX(classHash(oc)); }
        { Outcome oc; Param un("UNTYPED"); VF_TRY(oc, c.parameter("THREAD", un)); MIX(classHash(oc)); }
        MIX(hashSnap(take(c)));
        std::string p1 = dir + "/thr_" + tag + "_" + std::to_string(round) + ".t" + std::to_string(tid);      // the threads of a round save side by side: same directory, same stem, different extension
        { Outcome oc; VF_TRY(oc, c.write(p1)); MIX(classHash(oc)); }
        MIX(fnv(readFileBytes(p1)));
        {
            Outcome oc; std::unique_ptr<ezc3d::c3d> d; VF_TRY(oc, d.reset(new ezc3d::c3d(p1))); MIX(classHash(oc));
            if (d) { MIX(hashSnap(take(*d)));
                Param e("EDITED"); e.set(std::vector<float>(3, 1.5f * tid)); d->parameter("THREAD", e);
                if (np + nc > 0 && d->data().nbFrames() > 0) { ezc3d::DataNS::Frame fr; fr.add(d->data().frame(0)); Outcome fo; VF_TRY(fo, d->frame(fr)); MIX(classHash(fo)); }
                std::string p2 = p1 + ".2"; Outcome wo; VF_TRY(wo, d->write(p2)); MIX(classHash(wo)); MIX(fnv(readFileBytes(p2)));
                Outcome lo; std::unique_ptr<ezc3d::c3d> e2; VF_TRY(lo, e2.reset(new ezc3d::c3d(p2))); MIX(classHash(lo)); if (e2) MIX(hashSnap(take(*e2)));
                unlink(p2.c_str()); }
        }
        unlink(p1.c_str());
    }
    // shared inputs: all threads read the same files concurrently
    for (size_t i = 0; i < shared.size(); ++i) {
        if (!r.chance(70)) continue;
        Outcome oc; std::unique_ptr<ezc3d::c3d> s; VF_TRY(oc, s.reset(new ezc3d::c3d(shared[i]))); MIX(classHash(oc)); MIX(i);
        if (s) { Snap sn = take(*s); MIX(hashSnap(sn));
            // ... and save what was loaded to this thread's own path (header events, padded strings and byte parameters only exist in loaded objects)
            if (r.chance(60)) { std::string ps = dir + "/shr_" + tag + "_" + std::to_string(round) + ".t" + std::to_string(tid); Outcome wo; VF_TRY(wo, s->write(ps)); MIX(classHash(wo)); MIX(fnv(readFileBytes(ps))); unlink(ps.c_str()); } }
    }
    // now and then a recording of more than 256 KiB (library-side buffering strategies may change with size)
    if (r.chance(20)) {
        ezc3d::c3d big; { Param p("RATE"); p.set(std::vector<float>(1, 200.f)); big.parameter("POINT", p); }
        int bp = r.range(30, 45); for (int i = 0; i < bp; ++i) big.point("B" + std::to_string(i));
        for (int f = 0; f < 520; ++f) { ezc3d::DataNS::Frame fr; ezc3d::DataNS::Points3dNS::Points pts; for (int i = 0; i < bp; ++i) { ezc3d::DataNS::Points3dNS::Point p; p.name("B" + std::to_string(i)); p.x((float)(tid * 1000 + f)); p.y((float)i); p.z((float)r.range(-99, 99)); pts.point(p); } fr.add(pts); big.frame(fr); }
        std::string pb = dir + "/big_" + tag + "_" + std::to_string(round) + ".t" + std::to_string(tid); Outcome wo; VF_TRY(wo, big.write(pb)); MIX(classHash(wo)); MIX(fnv(readFileBytes(pb))); unlink(pb.c_str());
    }
    // failing loads
    { Outcome oc; std::unique_ptr<ezc3d::c3d> s; VF_TRY(oc, s.reset(new ezc3d::c3d(dir + "/does_not_exist.c3d"))); MIX(classHash(oc)); }
    { std::string bad = dir + "/bad_" + tag + "_" + std::to_string(round) + "_" + std::to_string(tid) + ".c3d"; writeFileBytes(bad, std::string(40, 'x')); Outcome oc; std::unique_ptr<ezc3d::c3d> s; VF_TRY(oc, s.reset(new ezc3d::c3d(bad))); MIX(classHash(oc)); unlink(bad.c_str()); }
#undef MIX
    if (trace) *trace = tr.str();
    return dg;
}

static const char* siteName(int s) { switch (s) { case 10: return "LOAD_HEADER"; case 11: return "LOAD_PARAMS"; case 12: return "LOAD_DATA"; case 13: return "LOAD_DONE"; case 20: return "SAVE_HEADER"; case 21: return "SAVE_PARAMS"; case 22: return "SAVE_DATA"; case 23: return "SAVE_CLOSE"; case 24: return "SAVE_DONE"; } return "?"; }

// Process-global state an application owns and a library working on independent objects must leave alone.
struct GroupingPunct : std::numpunct<char> { std::string do_grouping() const { return "\1"; } char do_thousands_sep() const { return '\''; } };
struct GlobalState { std::locale cxx; std::string c; std::string cwd; mode_t mask; int rounding;
    static GlobalState get() { GlobalState g; g.cxx = std::locale(); const char* l = setlocale(LC_ALL, 0); g.c = l ? l : "?"; char b[4096]; g.cwd = getcwd(b, sizeof b) ? b : "?"; g.mask = umask(0); umask(g.mask); g.rounding = fegetround(); return g; }
    std::string diff(const GlobalState& o) const { std::string d; if (!(cxx == o.cxx)) d += "cxx_global_locale;"; if (c != o.c) d += "c_locale;"; if (cwd != o.cwd) d += "working_directory;"; if (mask != o.mask) d += "umask;"; if (rounding != o.rounding) d += "fp_rounding_mode;"; return d; } };

void runThreadsRound(const Opts& o, long idx, CaseLog& log) {
    // every other round the application has its own global C++ locale (digits grouped one by one): whatever the library formats must come
    // out the same concurrently and alone, and the locale must still be the application's afterwards
    if (idx % 2 == 1) std::locale::global(std::locale(std::locale::classic(), new GroupingPunct));
    GlobalState gs0 = GlobalState::get();
    int T = (int)o.geti("threads", 8);
    if (o.geti("vary_threads", 1)) { static const int ts[] = {2, 4, 8, 16}; T = ts[idx % 4]; if (o.geti("threads", 0)) T = (int)o.geti("threads", 8); }
    std::vector<std::string> shared = o.list.empty() ? std::vector<std::string>() : readLines(o.list);
    g_hookOverride = threadHook;
    g_perturb = (int)o.geti("perturb", 1);
    std::vector<uint64_t> dig((size_t)T, 0); std::vector<std::vector<Stamp> > stamps((size_t)T);
    std::vector<std::string> excs((size_t)T);
    Barrier bar(T);
    std::vector<std::thread> th;
    for (int t = 0; t < T; ++t) th.emplace_back([&, t] {
        Rng pr(o.seed * 77 + 5, (uint64_t)idx * 64 + (uint64_t)t); t_rng = &pr; t_stamps = &stamps[(size_t)t];
        bar.wait();
        try { dig[(size_t)t] = job(o.seed, idx, t, o.out, "par", shared, 0); } catch (const std::exception& e) { excs[(size_t)t] = e.what(); }
        t_rng = 0; t_stamps = 0;
    });
    for (size_t t = 0; t < th.size(); ++t) th[t].join();
    g_perturb = 0;
    { std::string d = gs0.diff(GlobalState::get()); log.line("CNT global_state_checked 1"); if (!d.empty()) log.viol("C18", "process_global_state_changed/" + d, "after the concurrent jobs the process-global state differs from before: " + d); }
    // solo reference: the same jobs, one after the other, in this thread
    int mismatches = 0;
    for (int t = 0; t < T; ++t) {
        uint64_t solo = 0; std::string ex;
        try { solo = job(o.seed, idx, t, o.out, "solo", shared, 0); } catch (const std::exception& e) { ex = e.what(); }
        if (solo != dig[(size_t)t] || ex != excs[(size_t)t]) { ++mismatches; char b[200]; snprintf(b, sizeof b, "round %ld thread %d of %d: digest %016llx when run concurrently, %016llx alone (%s / %s)", idx, t, T, (unsigned long long)dig[(size_t)t], (unsigned long long)solo, excs[(size_t)t].c_str(), ex.c_str()); log.viol("C18", "result_differs_from_solo_run", b); }
        else if (!ex.empty()) { log.line("END harness_exception job threw %s", ex.c_str()); }
    }
    // interleaving evidence: which sections of which threads overlapped
    struct Iv { unsigned long a, b; int site, tid; };
    std::vector<Iv> iv;
    for (int t = 0; t < T; ++t) for (size_t k = 0; k + 1 < stamps[(size_t)t].size(); ++k) { int s = stamps[(size_t)t][k].site; if (s == 13 || s == 24) continue; Iv x = {stamps[(size_t)t][k].seq, stamps[(size_t)t][k + 1].seq, s, t}; iv.push_back(x); }
    std::map<std::string, long> pairs; unsigned long sig = 1469598103;
    for (size_t i = 0; i < iv.size(); ++i) for (size_t j = i + 1; j < iv.size(); ++j) if (iv[i].tid != iv[j].tid && iv[i].a < iv[j].b && iv[j].a < iv[i].b) {
        std::string k = std::string(siteName(std::min(iv[i].site, iv[j].site))) + "|" + siteName(std::max(iv[i].site, iv[j].site)); ++pairs[k]; }
    { std::vector<std::pair<unsigned long, int> > order; for (int t = 0; t < T; ++t) for (size_t k = 0; k < stamps[(size_t)t].size(); ++k) order.push_back(std::make_pair(stamps[(size_t)t][k].seq, t * 100 + stamps[(size_t)t][k].site)); std::sort(order.begin(), order.end()); for (size_t k = 0; k < order.size(); ++k) sig = (sig ^ (unsigned long)order[k].second) * 1099511628211UL; }
    long total = 0; for (std::map<std::string, long>::iterator it = pairs.begin(); it != pairs.end(); ++it) { log.line("CNT overlap:%s %ld", it->first.c_str(), it->second); total += it->second; }
    log.line("RES %ld threads=%d mismatches=%d overlaps=%ld sections=%zu sig=%016lx", idx, T, mismatches, total, iv.size(), sig);
    log.obs("interleaving", std::to_string(sig));
    Outcome none; log.ev("round", "threads=" + std::to_string(T) + " overlapping_section_pairs=" + std::to_string(total), none);
    g_hookOverride = 0;
}

}  // namespace vf
