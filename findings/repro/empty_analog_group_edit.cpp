// KF-*-no-analog-params: a file whose ANALOG group is empty (Optotrak.c3d of the repository) loads, but cannot be edited.
#include "ezc3d.h"
#include <cstdio>
int main(){ ezc3d::c3d c("/repo/test/c3dFiles/Optotrak.c3d"); size_t before = c.data().frame(0).points().nbPoints();
  try { c.point("NEW_POINT"); printf("accepted\n"); } catch (std::exception& e) { printf("point(\"NEW_POINT\") threw: %s; frame 0 had %zu points, now %zu; POINT:USED=%d\n", e.what(), before, c.data().frame(0).points().nbPoints(), c.parameters().group("POINT").parameter("USED").valuesAsInt()[0]); }
  return 0; }
