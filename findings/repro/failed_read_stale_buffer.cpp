// Witness for fix "a short or failed read no longer leaves stale memory in the read buffer".
// Loading a directory (open succeeds, every read fails) must be refused the same way whatever the heap holds.
// Build: g++ -std=c++11 -I /repo/include failed_read_stale_buffer.cpp /repo/src/*.cpp -o w ; run under MALLOC_PERTURB_=0, 85, 170, 255:
// before the fix the exception text/class changes with the fill byte (ios_base::failure "leading zeros" vs invalid_argument/ "checksum"),
// and the content loaded from a truncated file changes likewise.
#include "ezc3d.h"
#include <iostream>
#include <typeinfo>
int main(int argc, char** argv) {
    try { ezc3d::c3d c(argc > 1 ? argv[1] : "/tmp"); std::cout << "loaded" << std::endl; }
    catch (const std::exception& e) { std::cout << typeid(e).name() << ": " << e.what() << std::endl; }
    return 0;
}
