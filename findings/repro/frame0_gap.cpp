// KF-C05-frame0-gap: frame(f, 3) on an object without frames makes frame 0 a gap; all counts are derived from stored frame 0.
#include "ezc3d.h"
#include <cstdio>
int main(){ ezc3d::c3d c; ezc3d::ParametersNS::GroupNS::Parameter r("RATE"); r.set(std::vector<float>(1,100.f)); c.parameter("POINT", r);
  c.point("A"); c.point("B");
  ezc3d::DataNS::Frame f; ezc3d::DataNS::Points3dNS::Points p; ezc3d::DataNS::Points3dNS::Point a; a.name("A"); p.point(a); a.name("B"); p.point(a); f.add(p);
  c.frame(f, 3);
  printf("header points=%zu frames=%zu | POINT:USED=%d POINT:FRAMES=%d LABELS=%zu | stored frames=%zu, frame 3 has %zu points\n", c.header().nb3dPoints(), c.header().nbFrames(),
    c.parameters().group("POINT").parameter("USED").valuesAsInt()[0], c.parameters().group("POINT").parameter("FRAMES").valuesAsInt()[0], c.parameters().group("POINT").parameter("LABELS").valuesAsString().size(),
    c.data().nbFrames(), c.data().frame(3).points().nbPoints());
  return 0; }
