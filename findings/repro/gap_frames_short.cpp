// KF-C03-gap-frames: gap frames write nothing, the data section is shorter than frames x frame length.
#include "ezc3d.h"
#include <cstdio>
#include <sys/stat.h>
int main(){ ezc3d::c3d c; ezc3d::ParametersNS::GroupNS::Parameter r("RATE"); r.set(std::vector<float>(1,100.f)); c.parameter("POINT", r); c.point("A");
  ezc3d::DataNS::Frame f; ezc3d::DataNS::Points3dNS::Points p; ezc3d::DataNS::Points3dNS::Point a; a.name("A"); a.x(1); p.point(a); f.add(p);
  c.frame(f); c.frame(f, 4);   // frames 1..3 are gaps
  c.write("/tmp/kf_gap.c3d"); struct stat sb; stat("/tmp/kf_gap.c3d", &sb);
  ezc3d::c3d d("/tmp/kf_gap.c3d");
  printf("POINT:FRAMES=%d points=%zu -> data should be %d bytes; file has %ld bytes after the parameter section; scale word bytes=%08x\n", c.parameters().group("POINT").parameter("FRAMES").valuesAsInt()[0], c.header().nb3dPoints(), 5*16, (long)sb.st_size - 512*(1+(long)d.parameters().nbParamBlock()), (unsigned)c.header().scaleFactor());
  return 0; }
