// KF-C10-hostile-managed-edit: after POINT:RATE was replaced by an int parameter, a later call changes the object and then throws.
#include "ezc3d.h"
#include <cstdio>
int main(){ ezc3d::c3d c; ezc3d::ParametersNS::GroupNS::Parameter r("RATE"); r.set(5); try { c.parameter("POINT", r); } catch (std::exception& e) { printf("edit itself threw: %s\n", e.what()); }
  size_t before = c.parameters().group("POINT").nbParameters();
  ezc3d::ParametersNS::GroupNS::Parameter q("EXTRA"); q.set(1);
  try { c.parameter("POINT", q); printf("accepted\n"); } catch (std::exception& e) { printf("threw: %s; POINT group had %zu parameters, now %zu\n", e.what(), before, c.parameters().group("POINT").nbParameters()); }
  return 0; }
