// Witness for fix 02d6860: an object loaded from a file without POINT:DATA_START (the header word alone locates the data) was saved
// with the data-start block number written over byte 0 of the file, the pointer to the parameter section; the result cannot be read.
// Input: any encoder corpus file of variant "no_point_data_start" (ref/gen.py idx % 29 == 5), e.g. python3 - <<< "import sys;
// sys.path.insert(0,'/verif/ref'); import gen,c3dref; c,L,m=gen.gen_case(1,5); open('/tmp/a.c3d','wb').write(c3dref.encode(c,L))"
// Build: g++ -std=c++11 -I /repo/include no_data_start_overwrites_byte0.cpp /repo/src/*.cpp -o w ; ./w /tmp/a.c3d
#include "ezc3d.h"
#include "Data.h"
#include <iostream>
int main(int argc, char** argv) {
    if (argc < 2) return 2;
    try { ezc3d::c3d a(argv[1]); a.write("/tmp/witness_resaved.c3d"); ezc3d::c3d b("/tmp/witness_resaved.c3d");
          std::cout << "PASS: re-saved file loads, " << b.data().nbFrames() << " frames" << std::endl; return 0; }
    catch (const std::exception& e) { std::cout << "FAIL: " << e.what() << std::endl; return 1; }
}
