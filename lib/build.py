"""Build flavours of the library under test + driver, always from /repo's current working tree.

A flavour directory is keyed by a hash of (every file under /repo/src, /repo/include,
/repo/CMakeLists.txt, the flags, the driver sources).  Up-to-date directories are reused; stale
directories of the same flavour are removed.  Builds are serialised per flavour by an flock.
"""
import fcntl
import glob
import hashlib
import os
import shutil
import subprocess
import sys
from concurrent.futures import ThreadPoolExecutor

VERIF = os.path.dirname(os.path.dirname(os.path.abspath(__file__)))
REPO = os.environ.get("VERIF_REPO", "/repo")
BUILD_ROOT = os.environ.get("VERIF_BUILD_ROOT", os.path.join(VERIF, ".build"))
GUARD = "-DMELUND_EZC3D_VERIF"

COMMON = ["-std=c++11", "-g", "-fno-omit-frame-pointer", GUARD, "-Wno-deprecated-declarations", "-w"]
FLAVOURS = {
    "asan": {
        "cxx": "g++",
        "flags": COMMON + ["-O1", "-fsanitize=address,undefined,float-cast-overflow",
                           "-fno-sanitize-recover=all",
                           "-fsanitize-recover=signed-integer-overflow,shift,float-cast-overflow,float-divide-by-zero",
                           "-D_GLIBCXX_ASSERTIONS", "-D_GLIBCXX_SANITIZE_VECTOR", "-DVERIF_ASAN"],
        "link": ["-fsanitize=address,undefined", "-pthread"],
        # the driver's own translation units: ASan only and -O0 (compile time 3 s instead of 50 s); same -D flags (ODR of inline templates)
        "drvflags": COMMON + ["-O0", "-fsanitize=address", "-D_GLIBCXX_ASSERTIONS", "-D_GLIBCXX_SANITIZE_VECTOR", "-DVERIF_ASAN"],
    },
    "tsan": {
        "cxx": "g++",
        "flags": COMMON + ["-O1", "-fsanitize=thread", "-DVERIF_TSAN"],
        "link": ["-fsanitize=thread", "-pthread"],
    },
    "plain": {
        "cxx": "g++",
        "flags": COMMON + ["-O1", "-DVERIF_PLAIN"],
        "link": ["-pthread"],
    },
}
CFG_TYPES = ["Debug", "Release", "RelWithDebInfo", "MinSizeRel"]
CFG_KINDS = ["shared", "static"]


def _sha_files(paths, extra=""):
    h = hashlib.sha256()
    for p in sorted(paths):
        h.update(p.encode())
        h.update(b"\0")
        with open(p, "rb") as f:
            h.update(f.read())
        h.update(b"\0")
    h.update(extra.encode())
    return h.hexdigest()[:16]


def repo_files():
    files = []
    for sub in ("src", "include"):
        for root, _, names in os.walk(os.path.join(REPO, sub)):
            for n in names:
                files.append(os.path.join(root, n))
    files.append(os.path.join(REPO, "CMakeLists.txt"))
    for extra in glob.glob(os.path.join(REPO, "binding", "CMakeLists.txt")) + \
            glob.glob(os.path.join(REPO, "example", "CMakeLists.txt")):
        files.append(extra)
    return files


def repo_hash():
    return _sha_files(repo_files())


def driver_sources():
    return sorted(glob.glob(os.path.join(VERIF, "driver", "*.cpp")))


def driver_headers():
    return sorted(glob.glob(os.path.join(VERIF, "driver", "*.h")))


def _run(cmd, cwd=None, log=None):
    p = subprocess.run(cmd, cwd=cwd, stdout=subprocess.PIPE, stderr=subprocess.STDOUT, text=True)
    if log is not None:
        log.append((cmd, p.returncode, p.stdout))
    return p


class BuildError(Exception):
    pass


def _lock(name):
    os.makedirs(BUILD_ROOT, exist_ok=True)
    f = open(os.path.join(BUILD_ROOT, ".lock-" + name), "w")
    fcntl.flock(f, fcntl.LOCK_EX)
    return f


def _clean_stale(prefix, keep):
    for d in glob.glob(os.path.join(BUILD_ROOT, prefix + "-*")):
        if os.path.abspath(d) != os.path.abspath(keep) and os.path.isdir(d):
            shutil.rmtree(d, ignore_errors=True)


def build_flavour(name, jobs=16):
    """Return path of the driver binary of a sanitizer flavour (building it if necessary)."""
    spec = FLAVOURS[name]
    srcs = sorted(glob.glob(os.path.join(REPO, "src", "*.cpp")))
    key = _sha_files(repo_files() + driver_sources() + driver_headers(),
                     extra=" ".join([spec["cxx"]] + spec["flags"] + spec["link"] + spec.get("drvflags", [])))
    out = os.path.join(BUILD_ROOT, "%s-%s" % (name, key))
    exe = os.path.join(out, "c3d_driver")
    lk = _lock(name)
    try:
        if os.path.exists(exe) and os.path.exists(os.path.join(out, ".ok")):
            return exe
        shutil.rmtree(out, ignore_errors=True)
        os.makedirs(out)
        units = [(s, os.path.join(out, "lib_" + os.path.basename(s) + ".o")) for s in srcs] + \
                [(s, os.path.join(out, "drv_" + os.path.basename(s) + ".o")) for s in driver_sources()]
        inc = ["-I", os.path.join(REPO, "include"), "-I", os.path.join(VERIF, "driver")]

        def comp(u):
            fl = spec.get("drvflags", spec["flags"]) if os.path.basename(u[1]).startswith("drv_") else spec["flags"]
            return u, _run([spec["cxx"]] + fl + inc + ["-c", u[0], "-o", u[1]])
        with ThreadPoolExecutor(jobs) as ex:
            results = list(ex.map(comp, units))
        for u, p in results:
            if p.returncode != 0:
                raise BuildError("compile failed (%s): %s\n%s" % (name, u[0], p.stdout[-4000:]))
        p = _run([spec["cxx"]] + [u[1] for u in units] + spec["link"] + ["-ldl", "-o", exe])
        if p.returncode != 0:
            raise BuildError("link failed (%s)\n%s" % (name, p.stdout[-4000:]))
        open(os.path.join(out, ".ok"), "w").write(key)
        _clean_stale(name, out)
        return exe
    finally:
        lk.close()


def build_cfg(btype, kind, cxx="g++", jobs=4, guard=True):
    """Build the library with the repository's own CMake in one configuration and link the
    (uninstrumented) driver against it.  Returns the driver path.  guard=False: the library is compiled
    WITHOUT the hook guard, i.e. exactly as shipped (no step budgets there: not for damaged inputs)."""
    # (the name must not extend another flavour's name: stale directories are removed by prefix)
    name = "%s-%s-%s-%s" % ("cfg" if guard else "cfgnoguard", btype, kind, cxx.replace("+", "p"))
    key = _sha_files(repo_files() + driver_sources() + driver_headers(), extra=name + "|driver compiled and linked by g++")
    out = os.path.join(BUILD_ROOT, "%s-%s" % (name, key))
    exe = os.path.join(out, "c3d_driver")
    lk = _lock(name)
    try:
        if os.path.exists(exe) and os.path.exists(os.path.join(out, ".ok")):
            return exe
        shutil.rmtree(out, ignore_errors=True)
        os.makedirs(out)
        bdir = os.path.join(out, "cmake")
        p = _run(["cmake", "-G", "Ninja", "-S", REPO, "-B", bdir,
                  "-DCMAKE_BUILD_TYPE=" + btype,
                  "-DBUILD_SHARED_LIBS=" + ("TRUE" if kind == "shared" else "FALSE"),
                  "-DCMAKE_CXX_COMPILER=" + cxx,
                  "-DCMAKE_CXX_FLAGS=" + (GUARD + " " if guard else "") + "-w",
                  "-DBUILD_EXAMPLE=FALSE", "-DBUILD_TESTS=OFF", "-DBUILD_DOC=OFF",
                  "-DBINDER_PYTHON3=OFF", "-DBINDER_MATLAB=OFF"])
        if p.returncode != 0:
            raise BuildError("cmake configure failed (%s)\n%s" % (name, p.stdout[-4000:]))
        p = _run(["cmake", "--build", bdir, "-j", str(jobs), "--target", "ezc3d"])
        if p.returncode != 0:
            raise BuildError("cmake build failed (%s)\n%s" % (name, p.stdout[-4000:]))
        libs = glob.glob(os.path.join(bdir, "libezc3d*.so")) + glob.glob(os.path.join(bdir, "libezc3d*.a"))
        if not libs:
            raise BuildError("no library produced (%s)" % name)
        lib = libs[0]
        # the driver itself is compiled identically for every configuration -- same compiler (g++), same flags: only the library differs.
        # (Compiling it with the configuration's compiler made g++ and clang++ runs diverge in the DRIVER: the order in which function
        # arguments that draw random numbers are evaluated is unspecified.  Both compilers use libstdc++, so the objects link.)
        drv_cxx = "g++"
        inc = ["-I", os.path.join(REPO, "include"), "-I", os.path.join(VERIF, "driver")]
        objs = []

        def comp(s):
            o = os.path.join(out, "drv_" + os.path.basename(s) + ".o")
            return o, _run([drv_cxx, "-std=c++11", "-O1", "-g", GUARD, "-DVERIF_PLAIN", "-w"] + inc + ["-c", s, "-o", o])
        with ThreadPoolExecutor(jobs) as ex:
            for o, p in ex.map(comp, driver_sources()):
                if p.returncode != 0:
                    raise BuildError("driver compile failed (%s)\n%s" % (name, p.stdout[-4000:]))
                objs.append(o)
        link = [drv_cxx] + objs + [lib, "-pthread", "-ldl", "-o", exe]
        if kind == "shared":
            link += ["-Wl,-rpath," + os.path.dirname(lib)]
        p = _run(link)
        if p.returncode != 0:
            raise BuildError("driver link failed (%s)\n%s" % (name, p.stdout[-4000:]))
        # keep only what is needed
        for junk in glob.glob(os.path.join(out, "*.o")):
            os.unlink(junk)
        open(os.path.join(out, ".ok"), "w").write(key)
        _clean_stale(name, out)
        return exe
    finally:
        lk.close()


if __name__ == "__main__":
    for n in sys.argv[1:]:
        if n.startswith("cfg:"):
            _, t, k = n.split(":")
            print(build_cfg(t, k))
        else:
            print(build_flavour(n))
