"""Dispatch of property ids to check implementations."""
import importlib

MODULES = {
    "C01": "checks_hist", "C05": "checks_hist", "C06": "checks_hist", "C07": "checks_hist", "C08": "checks_hist",
    "C09": "checks_hist", "C10": "checks_hist", "C11": "checks_hist", "C13": "checks_c13",
    "C02": "checks_files", "C03": "checks_files", "C04": "checks_files", "C12": "checks_files",
    "C14": "checks_c14", "C15": "checks_c15", "C16": "checks_c16", "C17": "checks_c17", "C18": "checks_c18", "C19": "checks_c19",
}


def run(prop, tier):
    m = importlib.import_module(MODULES[prop])
    return m.run(prop, tier)


def replay(prop, path):
    m = importlib.import_module(MODULES[prop])
    return m.replay(prop, path)
