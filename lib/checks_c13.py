"""C13: no memory error on any valid use.  Re-runs a seeded slice of every workload mode under ASan+UBSan+libstdc++ assertions
(one process per case) and a sample under valgrind memcheck on the uninstrumented build."""
import collections
import json
import os
import re
import subprocess
import time
from concurrent.futures import ThreadPoolExecutor

import build
import checks_files as F
import checks_hist as H
import common as C


def memcheck_sample(exe_plain, wd, ncases, viols, stats):
    out = os.path.join(wd, "memcheck")
    os.makedirs(out, exist_ok=True)
    jobs = []
    per = 3
    for k in range(0, ncases, per):
        prof = ["c13", "c13", "mixed"][(k // per) % 3]
        wild = ["--wild"] if (k // per) % 2 else []
        jobs.append((k, min(k + per, ncases), prof, wild))

    def one(j):
        a, b, prof, wild = j
        log = os.path.join(out, "vg_%d.txt" % a)
        cmd = ["valgrind", "--quiet", "--error-exitcode=9", "--leak-check=no", "--track-origins=no", "--log-file=" + log,
               exe_plain, "hist", "--nofork", "--out", os.path.join(out, "o%d" % a), "--seed", str(C.seed()), "--from", str(a), "--to", str(b),
               "--profile", prof, "--maxops", "25"] + wild
        p = subprocess.run(cmd, stdout=subprocess.DEVNULL, stderr=subprocess.PIPE, text=True, timeout=900)
        return j, p.returncode, log
    with ThreadPoolExecutor(C.NCPU) as ex:
        res = list(ex.map(one, jobs))
    for (a, b, prof, wild), rc, log in res:
        stats["memcheck_cases"] += b - a
        txt = open(log, errors="replace").read() if os.path.exists(log) else ""
        errs = re.findall(r"==\d+== (Invalid (?:read|write|free)[^\n]*|Mismatched free[^\n]*|Source and destination overlap[^\n]*)", txt)
        if rc not in (0,) and not errs:
            if rc == 9:
                errs = []      # only definedness reports (uses of uninitialised values after a failed read of a non-C3D file): not in C13's statement; C14/C16 own them
            else:
                raise C.Harness("valgrind run failed rc=%d: %s" % (rc, txt[-500:]))
        for e in errs[:3]:
            m = re.search(r"(?:at|by) 0x[0-9A-F]+: (ezc3d::[A-Za-z0-9_:~]+)", txt[txt.find(e):])
            kind = re.sub(r" of size \d+", "", e).strip().replace(" ", "_")
            viols.append(dict(prop="C13", key="memcheck/%s@%s" % (kind[:40], m.group(1) if m else "?"), detail="cases %d..%d profile %s %s: %s" % (a, b, prof, wild, txt[:600].replace("\n", " | ")), case=a))


def run(prop, tier):
    t0 = time.time()
    exe = build.build_flavour("asan")
    wd = C.workdir("C13", tier)
    q = tier == "quick"
    try:
        viols = []
        stats = collections.Counter()
        results = []
        first = 0
        F.selftest_codec()
        paths, metas, lst = F.make_corpus(os.path.join(wd, "corpus"), 200 if q else 10000, first=300000)
        # load-then-edit histories start from the encoder corpus only: the 1-2 MB vendor files make every per-call snapshot take seconds
        # (they are loaded, printed, re-saved and taken through 3 generations below)
        slst = os.path.join(wd, "start.txt")
        open(slst, "w").write("\n".join(p for p in paths if not p.startswith("/repo/")) + "\n")
        plan = [("c13", False, 260 if q else 15000, ["--maxdesc", "255"]), ("c13", True, 340 if q else 20000, []), ("mixed", False, 100 if q else 5000, ["--start", slst, "--maxops", "16"]),
                ("c10", True, 100 if q else 5000, ["--start", slst, "--startpct", "50"])]
        for wi, (profile, wild, cnt, extra) in enumerate(plan):
            out = os.path.join(wd, "h%d" % wi)
            args = ["--profile", profile, "--maxops", "40" if q else "60"] + (["--wild"] if wild else []) + extra
            C.run_driver(exe, "hist", cnt, out, args=args, first=first)
            R = C.parse_out(out)
            R.workload = dict(profile=profile, wild=wild, args=args, first=first, count=cnt)
            for v in R.viol:
                v["workload"] = R.workload
            results.append(R)
            first += cnt
        # file workloads: load + print + re-save + destroy of every corpus file and of the C12 pattern files
        out = os.path.join(wd, "files")
        C.run_driver(exe, "loaddump", len(paths), out, args=["--list", lst, "--resave", "1", "--print", "1"])
        RF = C.parse_out(out)
        RF.workload = dict(profile="loaddump", args=["--resave", "1", "--print", "1"])
        results.append(RF)
        out = os.path.join(wd, "gens")
        ng = min(len(paths), 120 if q else 1000)
        C.run_driver(exe, "gens", ng, out, args=["--list", lst, "--gens", "3"])
        RG = C.parse_out(out)
        RG.workload = dict(profile="gens", args=["--gens", "3"])
        results.append(RG)
        out = os.path.join(wd, "residue")
        C.run_driver(exe, "residue", 64 if q else 520, out, args=["--variant", "1"])
        RR = C.parse_out(out)
        RR.workload = dict(profile="residue", args=["--variant", "1"])
        results.append(RR)
        out = os.path.join(wd, "c12api")
        C.run_driver(exe, "c12api", 5, out, chunk=1)
        RA = C.parse_out(out)
        RA.workload = dict(profile="c12api", args=[])
        results.append(RA)
        for R in results:
            viols += [v for v in R.viol if v["prop"] in ("*", "C13")]
            if R.harness:
                raise C.Harness("driver harness exception in %s cases %s" % (R.workload, R.harness[:5]))
        # memcheck sample on the uninstrumented build
        exe_plain = build.build_flavour("plain")
        memcheck_sample(exe_plain, wd, 48 if q else 480, viols, stats)
        cnt, ev, status, ub, shapes = H.merge_counts(results)
        cases = sum(R.cases for R in results)
        sigs = set()
        for R in results:
            for case, ops in R.case_ops.items():
                sigs.add(hash((R.workload["profile"], tuple(ops))))
        cov = dict(evaluations=cases + stats["memcheck_cases"], distinct_nontrivial=len(sigs),
                   rule="one forked process per case under ASan (alloc-dealloc-mismatch on) + fatal memory-class UBSan + _GLIBCXX_ASSERTIONS/_GLIBCXX_SANITIZE_VECTOR; workloads: disciplined and wild API histories (with print, save, load, destroy, refused calls), load-then-edit from the encoder corpus, load+print+re-save of the corpus, 3 load/save generations, residue sweep objects, the C12 API objects; plus a valgrind-memcheck sample on the uninstrumented build; distinct = distinct (workload, operation/outcome sequence)",
                   samples=[s for R in results for s in R.samples][:3], events_total=sum(ev.values()),
                   events_by_operation_and_outcome={"%s -> %s" % k: v for k, v in ev.most_common(50)},
                   child_end_status=dict(status), refused_calls=cnt.get("refused", 0), memcheck_cases=stats["memcheck_cases"],
                   recoverable_ub_reports_counted_not_judged=dict(ub.most_common(8)), workloads=[R.workload for R in results])
        wdc = [c for R in results for c in R.watchdog]
        inconc = "watchdog fired on %s" % wdc[:5] if wdc else None
        if status.get("ok", 0) < 0.9 * cases and not viols:
            inconc = "many abnormal ends without classification"

        def rinfo(v):
            w = v.get("workload", {})
            return dict(mode="hist" if w.get("profile") in ("c13", "mixed", "c10") else w.get("profile", "hist"), flavour="asan", args=w.get("args", []))
        return C.finish("C13", tier, "exploration", cov, viols, t0, replay_info=rinfo,
                        assumptions=["a clean sanitizer run is evidence about the executions produced, not memory safety: red-zone tools miss intra-object and far overflows"],
                        inconclusive=inconc)
    finally:
        C.cleanup(wd)


def replay(prop, path):
    info = json.load(open(path))
    if info.get("mode", "hist") == "hist":
        return H.replay(prop, path)
    return F.replay(prop, path)
