"""C14: saving is pure, repeatable and writes only defined bytes.
(1) snapshot before/after every save, (2) two saves in one process byte-identical (both judged online in the driver),
(3) the same seeded histories / loaded files saved in fresh processes with different heap contents (MALLOC_PERTURB_, ASan fill) must be byte-identical,
(4) valgrind memcheck: no uninitialised byte handed to write(2)."""
import collections
import filecmp
import json
import os
import re
import subprocess
import sys
import time
from concurrent.futures import ThreadPoolExecutor

import build
import checks_files as F
import checks_hist as H
import common as C

sys.path.insert(0, os.path.join(C.VERIF, "ref"))
import c3dref  # noqa: E402


def section_of(path, off):
    try:
        D = c3dref.decode(open(path, "rb").read())
        if off < 512:
            w = off // 2 + 1
            return "header(word %d)" % w
        if off < D["d_after"]:
            for p in D["params"]:
                pass
            return "parameters(byte %d of the section)" % (off - D["p0"])
        return "data(byte %d)" % (off - D["d_after"])
    except Exception:
        return "?"


def first_diff(a, b):
    x, y = open(a, "rb").read(), open(b, "rb").read()
    n = min(len(x), len(y))
    for i in range(n):
        if x[i] != y[i]:
            return i, len(x), len(y)
    return n, len(x), len(y)


def run(prop, tier):
    t0 = time.time()
    q = tier == "quick"
    asan = build.build_flavour("asan")
    plain = build.build_flavour("plain")
    wd = C.workdir("C14", tier)
    try:
        viols = []
        stats = collections.Counter()
        F.selftest_codec()
        nh = 200 if q else 3000
        nf = 120 if q else 1500
        paths, metas, lst = F.make_corpus(os.path.join(wd, "corpus"), nf, first=400000, force=["events"])
        # (1)+(2): online monitors on histories (asan flavour) -- c13 profile has save_twice and round trips
        out = os.path.join(wd, "online")
        hargs = ["--profile", "c13", "--maxops", "30", "--dump-final", "--maxdesc", "255", "--wildpct", "35", "--rebuild", "1", "--blanknames", "1"]   # 35 % of the histories are wild (size-constructed frames, hostile edits)
        C.run_driver(asan, "hist", nh, out, args=hargs)
        R0 = C.parse_out(out)
        R0.workload = dict(profile="c13", args=hargs, first=0, count=nh)
        for v in R0.viol:
            v["workload"] = R0.workload
        viols += [v for v in R0.viol if v["prop"] in ("*", "C14")]
        # (3): same histories + same loaded files in fresh processes with different heap contents
        runs = [("asan_fill_be", asan, {}), ("plain_perturb_00", plain, {"MALLOC_PERTURB_": "0"}), ("plain_perturb_55", plain, {"MALLOC_PERTURB_": "85"}), ("plain_perturb_aa", plain, {"MALLOC_PERTURB_": "170"})]
        outs = {}
        sized = {}
        nsz = 60 if q else 600
        for tag, exe, env in runs:
            if tag == "asan_fill_be":
                outs[tag] = (out, None)
            else:
                o1 = os.path.join(wd, "h_" + tag)
                C.run_driver(exe, "hist", nh, o1, args=hargs, env_extra=env)
                outs[tag] = (o1, None)
            o3 = os.path.join(wd, "z_" + tag)
            C.run_driver(exe, "sizedsave", nsz, o3, env_extra=env)
            sized[tag] = o3
            o2 = os.path.join(wd, "f_" + tag)
            C.run_driver(exe, "loaddump", len(paths), o2, args=["--list", lst, "--resave", "1"], env_extra=env)
            if tag == "asan_fill_be":
                RL = C.parse_out(o2)
                viols += [v for v in RL.viol if v["prop"] in ("*", "C14")]      # purity of saving a LOADED object (1-D strings, byte parameters, events)
                stats["loaded_objects_saved_with_snapshot_equality_checked"] = sum(1 for c_, l in RL.lines.get("RES", []) if " ok " in l)
            outs[tag] = (outs[tag][0], o2)
        ref_tag = runs[0][0]
        for kind, pat, n in (("history", "final_%d.c3d", nh), ("loaded_file", "resave_%d.c3d", len(paths))):
            for i in range(n):
                base = os.path.join(outs[ref_tag][0 if kind == "history" else 1], pat % i)
                if not os.path.exists(base):
                    continue
                stats["objects_compared_across_processes:" + kind] += 1
                for tag, exe, env in runs[1:]:
                    other = os.path.join(outs[tag][0 if kind == "history" else 1], pat % i)
                    if not os.path.exists(other):
                        # why is it missing?  A watchdog (wall clock) is inconclusive, never a verdict; a refused save or a crash is a difference between processes
                        st = "?"
                        odir = outs[tag][0 if kind == "history" else 1]
                        for idxf in [x for x in os.listdir(odir) if x.startswith("index_")]:
                            for ln in open(os.path.join(odir, idxf)):
                                pp = ln.split("\t")
                                if pp[0] == str(i):
                                    st = pp[1]
                        if st == "watchdog":
                            stats["watchdog_cases"] += 1
                        else:
                            viols.append(dict(prop="C14", key="cross_process/file_missing/" + kind, detail="%s case %d saved under %s but not under %s (child status there: %s)" % (kind, i, ref_tag, tag, st), case=i))
                        continue
                    stats["file_pairs_compared"] += 1
                    if not filecmp.cmp(base, other, shallow=False):
                        off, la, lb = first_diff(base, other)
                        sec = section_of(base, off)
                        secname = sec.split("(")[0]
                        viols.append(dict(prop="C14", key="cross_process/bytes_differ/%s/%s" % (kind, secname), detail="%s case %d: %s vs %s differ first at offset %d (%s), sizes %d/%d" % (kind, i, ref_tag, tag, off, sec, la, lb),
                                          case=i, files=[base, other], workload=R0.workload if kind == "history" else None))
                        break
        for i in range(nsz):
            base = os.path.join(sized[ref_tag], "sized_%d.c3d" % i)
            if not os.path.exists(base):
                continue
            stats["objects_compared_across_processes:size_constructed"] += 1
            for tag, exe, env in runs[1:]:
                other = os.path.join(sized[tag], "sized_%d.c3d" % i)
                if not os.path.exists(other) or not filecmp.cmp(base, other, shallow=False):
                    off, la, lb = first_diff(base, other) if os.path.exists(other) else (-1, 0, 0)
                    viols.append(dict(prop="C14", key="cross_process/bytes_differ/size_constructed/" + (section_of(base, off).split("(")[0] if off >= 0 else "missing"), detail="object %d built with size constructors (values never set): %s vs %s differ at offset %d" % (i, ref_tag, tag, off), case=i, files=[base]))
                    break
                stats["file_pairs_compared"] += 1
        # (3b) several objects saved one after the other in one process must give the same bytes as when saved alone
        win = 6
        oseq = os.path.join(wd, "saveseq")
        nwin = (len(paths) + win - 1) // win
        C.run_driver(asan, "saveseq", nwin, oseq, args=["--list", lst, "--window", str(win)])
        RS = C.parse_out(oseq)
        viols += [v for v in RS.viol if v["prop"] in ("*", "C14")]
        for i in range(len(paths)):
            alone = os.path.join(outs[ref_tag][1], "resave_%d.c3d" % i)
            if not os.path.exists(alone):
                continue
            for pas in (0, 1):
                seqf = os.path.join(oseq, "seq%d_%d.c3d" % (pas, i))
                if not os.path.exists(seqf):
                    viols.append(dict(prop="C14", key="in_sequence/file_missing", detail="file %d pass %d" % (i, pas), case=i))
                    continue
                stats["saves_in_sequence_compared"] += 1
                if not filecmp.cmp(alone, seqf, shallow=False):
                    off, la, lb = first_diff(alone, seqf)
                    sec = section_of(alone, off)
                    viols.append(dict(prop="C14", key="in_sequence/bytes_depend_on_previous_saves/" + sec.split("(")[0], detail="%s saved after other objects in the same process differs from the same object saved alone at offset %d (%s), sizes %d/%d" % (os.path.basename(paths[i]), off, sec, la, lb), case=i, files=[paths[i], alone, seqf]))
                    break
        # (3e) objects "reachable by loading" that no well-formed file gives: header words and parameter fields of small corpus files set to
        # boundary values; whatever still loads is saved twice (snapshot equality around the save, byte equality of the two files)
        sys.path.insert(0, os.path.join(C.VERIF, "ref"))
        import damage
        pspecs = []
        for sp in [p_ for p_ in paths if os.path.getsize(p_) < 5000][:10 if q else 60]:
            ss = damage.specs_for(sp, open(sp, "rb").read(), C.seed(), quick=True)
            pspecs += [x for k_, x in ss if k_.startswith("field:hdr")] + [x for k_, x in ss if k_.startswith("field:") and not k_.startswith("field:hdr")][C.seed() % 5::5]
        pspecs = pspecs[:3000 if q else 30000]
        plst = os.path.join(wd, "perturbed.txt")
        open(plst, "w").write("\n".join(pspecs) + "\n")
        opert = os.path.join(wd, "perturbed")
        C.run_driver(asan, "damage", len(pspecs), opert, args=["--list", plst, "--savecheck", "1", "--timeout", "90", "--hardmult", "256"], chunk=200)
        RP = C.parse_out(opert)
        viols += [v for v in RP.viol if v["prop"] == "C14"]
        stats["perturbed_files_tried"] = len(pspecs)
        stats["objects_loaded_from_perturbed_files_and_saved_twice"] = RP.cnt.get("c14_perturbed_objects_saved", 0)
        # (4) memcheck: definedness of every byte handed to write(2)
        nm = 40 if q else 400
        mdir = os.path.join(wd, "memcheck")
        os.makedirs(mdir, exist_ok=True)
        jobs = []
        per = 4
        for k in range(0, nm // 2, per):
            jobs.append(("hist", k, min(k + per, nm // 2)))
        for k in range(0, min(nm // 2, len(paths)), per):
            jobs.append(("loaddump", k, min(k + per, len(paths), nm // 2)))

        def one(j):
            mode, a, b = j
            log = os.path.join(mdir, "vg_%s_%d.txt" % (mode, a))
            args = hargs if mode == "hist" else ["--list", lst, "--resave", "1"]
            cmd = ["valgrind", "--quiet", "--error-exitcode=9", "--leak-check=no", "--track-origins=yes", "--log-file=" + log,
                   plain, mode, "--nofork", "--out", os.path.join(mdir, "o_%s_%d" % (mode, a)), "--seed", str(C.seed()), "--from", str(a), "--to", str(b)] + args
            p = subprocess.run(cmd, stdout=subprocess.DEVNULL, stderr=subprocess.PIPE, text=True, timeout=1800)
            return j, p.returncode, log
        with ThreadPoolExecutor(C.NCPU) as ex:
            res = list(ex.map(one, jobs))
        for (mode, a, b), rc, log in res:
            stats["memcheck_cases"] += b - a
            txt = open(log, errors="replace").read() if os.path.exists(log) else ""
            if rc not in (0, 9):
                raise C.Harness("valgrind failed rc=%d %s" % (rc, txt[-400:]))
            for m in re.finditer(r"Syscall param (write|writev|pwrite64)\([^)]*\) points to uninitialised byte", txt):
                seg = txt[m.start():m.start() + 3000]
                org = re.search(r"Uninitialised value was created by a (heap|stack) allocation\s*\n==\d+==\s+at 0x[0-9A-F]+: ([^\n]*)", seg)
                fn = re.findall(r"(?:at|by) 0x[0-9A-F]+: (ezc3d::[A-Za-z0-9_:~]+)", seg)
                origin_fn = "?"
                if org:
                    of = re.findall(r"(?:at|by) 0x[0-9A-F]+: (ezc3d::[A-Za-z0-9_:~]+)", seg[org.start():])
                    origin_fn = of[0] if of else "?"
                viols.append(dict(prop="C14", key="undefined_bytes_written/origin=%s:%s" % (org.group(1) if org else "?", origin_fn), detail="%s cases %d..%d: write(2) of uninitialised bytes; writer %s" % (mode, a, b, fn[:1]), case=a, workload=R0.workload if mode == "hist" else None))
                break
            others = re.findall(r"==\d+== (Invalid (?:read|write|free)[^\n]*|Mismatched free[^\n]*)", txt)
            for e in others[:1]:
                viols.append(dict(prop="C14", key="memcheck/" + re.sub(r" of size \d+", "", e).strip().replace(" ", "_")[:40], detail="%s cases %d..%d" % (mode, a, b), case=a))
        cnt = R0.cnt
        cov = dict(evaluations=nh + len(paths) + stats["memcheck_cases"], distinct_nontrivial=len(R0.histsig) + len(set(json.dumps(m.get("shape"), sort_keys=True) for m in metas)),
                   rule="objects = final states of seeded API histories (35 % wild), objects assembled with the size constructors whose values are never set, and loaded corpus files (all with header events and short labels); each object is saved in 4 fresh processes (ASan fill 0xbe; glibc MALLOC_PERTURB_ 0x00/0x55/0xaa) and the files compared byte for byte; a sample is saved under valgrind memcheck with origin tracking (any uninitialised byte reaching write(2) is a violation); online: the final object of every eligible history is rebuilt along another history (fresh object, content of the final snapshot in one pass) and, when snapshot-equal, both are saved and compared byte for byte; snapshot equality around every save and byte equality of two consecutive saves (the second destination pre-filled with longer junk); every loaded file is also saved after other objects in one process (two orders) and compared with its stand-alone save; distinct = distinct history signatures + distinct corpus shapes",
                   samples=R0.samples[:2] + [dict(file=os.path.basename(paths[0]), variants=metas[0]["variants"])],
                   saves_with_snapshot_equality_checked=cnt.get("c14_purity_checked", 0), equal_objects_built_along_another_history_compared=cnt.get("c14_equal_objects_compared", 0), rebuilds_not_comparable=cnt.get("c14_rebuild_not_equal", 0) + cnt.get("c14_rebuild_failed", 0), double_saves_compared=cnt.get("c14_double_saves", 0),
                   processes_per_object=len(runs), **dict(stats))
        inconc = None
        if stats.get("watchdog_cases", 0) > 3:
            inconc = "%d cases hit the wall-clock watchdog" % stats["watchdog_cases"]
        if cnt.get("c14_purity_checked", 0) < 100 or stats["file_pairs_compared"] < 0.8 * 3 * (nh + len(paths)):
            inconc = "too few saves observed (%d purity checks, %d file pairs)" % (cnt.get("c14_purity_checked", 0), stats["file_pairs_compared"])

        def rinfo(v):
            w = v.get("workload") or {}
            return dict(mode="hist", flavour="asan", args=w.get("args", []))
        return C.finish("C14", tier, "exploration", cov, viols, t0, replay_info=rinfo,
                        assumptions=["definedness is judged by valgrind memcheck at the write(2) boundary; the cross-process differential sees heap garbage only"], inconclusive=inconc)
    finally:
        C.cleanup(wd)


def replay(prop, path):
    return H.replay(prop, path)
