"""C15: a save that did not reach the disk is reported.  fault_enumeration: RLIMIT_FSIZE at every byte offset (kernel accepts
exactly N bytes), /dev/full, unopenable destinations, read-only targets as uid nobody; strace-injected ENOSPC as a cross-check of
the injection itself."""
import collections
import json
import os
import re
import subprocess
import time

import build
import checks_hist as H
import common as C


def strace_crosscheck(plain, wd, stats, viols):
    """Inject ENOSPC into the k-th write syscall of a plain save; '(INJECTED)' in the trace proves the fault fired."""
    out = os.path.join(wd, "strace")
    os.makedirs(out, exist_ok=True)
    for k in (1, 2, 3):
        tr = os.path.join(out, "trace_%d.txt" % k)
        cmd = ["strace", "-f", "-o", tr, "-e", "trace=write,writev", "-e", "inject=write,writev:error=ENOSPC:when=%d+" % k, "-P", os.path.join(out, "o%d" % k, "plain_0.c3d"),
               plain, "plainsave", "--nofork", "--out", os.path.join(out, "o%d" % k), "--kind", "4", "--from", "0", "--to", "1"]
        try:
            p = subprocess.run(cmd, stdout=subprocess.PIPE, stderr=subprocess.PIPE, text=True, timeout=120)
        except (OSError, subprocess.TimeoutExpired):
            stats["strace_unavailable"] += 1
            return
        t = open(tr, errors="replace").read() if os.path.exists(tr) else ""
        inj = t.count("(INJECTED)")
        if inj == 0:
            stats["strace_no_injection"] += 1
            continue
        stats["strace_injected_runs"] += 1
        stats["strace_injected_syscalls"] += inj
        if "PLAINSAVE threw ios_failure" not in p.stdout:
            viols.append(dict(prop="C15", key="returned_normally_on_incomplete_write/strace_enospc", detail="ENOSPC injected into write syscall #%d+ (%d injected) but: %s" % (k, inj, p.stdout.strip()[-100:]), case=k))


def run(prop, tier):
    t0 = time.time()
    q = tier == "quick"
    exe = build.build_flavour("asan")
    wd = C.workdir("C15", tier)
    try:
        chunks = 8 if q else 16
        stride = 997 if q else 41
        kinds = 9
        out = os.path.join(wd, "faults")
        args = ["--chunks", str(chunks), "--stride", str(stride), "--exhaustive_below", "9000" if q else "40000"]
        C.run_driver(exe, "faults", kinds * chunks, out, args=args, chunk=1, env_extra={"ASAN_OPTIONS": C.SAN_ENV["ASAN_OPTIONS"]})
        R = C.parse_out(out)
        R.workload = dict(profile="faults", args=args)
        viols = list(R.viol)
        for v in viols:
            v["workload"] = R.workload
        # the same sweep on the library AS SHIPPED: the repository's own CMake Release build, hook guard not defined (every other build of
        # this framework defines it, and an error path may differ between the two)
        exe2 = build.build_cfg("Release", "static", guard=False)
        out2 = os.path.join(wd, "faults_shipped")
        C.run_driver(exe2, "faults", kinds * chunks, out2, args=args, chunk=1)
        R2 = C.parse_out(out2)
        R2.workload = dict(profile="faults", args=args, flavour="cfg:Release:static:noguard")
        for v in R2.viol:
            v["workload"] = R2.workload
            v["key"] += "|unhooked_release_build"
        viols += R2.viol
        shipped_points = sum(int(dict(x.split("=") for x in line.split()[2:])["offsets"]) for case, line in R2.lines.get("RES", []))
        stats = collections.Counter()
        per_kind = collections.defaultdict(lambda: dict(size=0, offsets=0, exhaustive=False, threw=0, returned=0))
        for case, line in R.lines.get("RES", []):
            kv = dict(x.split("=") for x in line.split()[2:])
            k = per_kind[int(kv["kind"])]
            k["size"] = int(kv["size"]); k["offsets"] += int(kv["offsets"]); k["exhaustive"] = kv["exhaustive"] == "1"
            k["threw"] += int(kv["threw"]); k["returned"] += int(kv["returned"])
        plain = build.build_flavour("plain")
        strace_crosscheck(plain, wd, stats, viols)
        total = sum(k["offsets"] for k in per_kind.values())
        dest = {k[5:]: v for k, v in R.cnt.items() if k.startswith("dest:")}
        faults_by_section = {k[6:]: v for k, v in R.cnt.items() if k.startswith("fault:")}
        cov = dict(evaluations=total + sum(dest.values()), distinct_nontrivial=sum(1 for _ in faults_by_section) + len(dest) + total,
                   rule="one evaluation = one save under one injected fault: RLIMIT_FSIZE=N with SIGXFSZ ignored (the kernel accepts exactly N bytes, then EFBIG) for every N of the small objects and header+parameter offsets, block boundaries +-2 and a stride through the data of the large ones; limits >= size must NOT be refused; destination faults per object; distinct = distinct (object, offset) pairs + destination fault kinds; oracle: threw ios_base::failure <=> file incomplete, returned => byte-identical to the fault-free save",
                   samples=[dict(object_kind=k, file_size=v["size"], offsets_tried=v["offsets"], every_offset=v["exhaustive"], threw=v["threw"], returned=v["returned"]) for k, v in sorted(per_kind.items())],
                   exhaustive=all(v["exhaustive"] for k, v in per_kind.items() if k <= 3),
                   exhaustive_scope="every byte offset 0..size+2 of object kinds %s; larger objects strided" % [k for k, v in sorted(per_kind.items()) if v["exhaustive"]],
                   fault_points_repeated_on_unhooked_release_build=shipped_points, destination_faults_on_unhooked_release_build={k[5:]: v for k, v in R2.cnt.items() if k.startswith("dest:")},
                   faults_by_section=faults_by_section, destination_faults=dest, child_end_status=dict(R.status), **dict(stats))
        inconc = None
        if total < 3000:
            inconc = "too few fault points (%d)" % total
        if not any(k.endswith(":threw") for k in dest):
            inconc = "destination faults were not observed"
        if stats.get("strace_injected_runs", 0) == 0:
            cov["strace_note"] = "strace injection did not fire in this environment; RLIMIT_FSIZE and /dev/full faults are real kernel behaviour and do not depend on it"
        return C.finish("C15", tier, "fault_enumeration", cov, viols, t0, replay_info=lambda v: dict(mode="faults", flavour="asan", args=args),
                        assumptions=["failures reported only at fsync or later are outside the statement (the library does not sync)"], inconclusive=inconc)
    finally:
        subprocess.run(["chmod", "-R", "u+rwX", wd], stderr=subprocess.DEVNULL)
        C.cleanup(wd)


def replay(prop, path):
    return H.replay(prop, path)
