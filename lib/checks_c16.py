"""C16: damaged files are refused or loaded, never crash or hang.  fault_enumeration over inputs: every truncation length and every
single-byte overwrite (boundary values) of small valid files, structure-aware corruption of every header / record field, pairs;
each load in its own process under ASan with LOGICAL budgets (read operations, reads after the stream failed, allocated bytes)."""
import collections
import json
import os
import sys
import time

import build
import checks_files as F
import common as C

sys.path.insert(0, os.path.join(C.VERIF, "ref"))
import c3dref  # noqa: E402
import damage  # noqa: E402
import gen  # noqa: E402


def seeds(wd, exe, q):
    """valid seed files: library-saved small objects, reference-encoded variants, vendor files"""
    sd = os.path.join(wd, "seeds")
    os.makedirs(sd, exist_ok=True)
    out = []
    C.run_driver(exe, "residue", 1, os.path.join(sd, "lib"), args=["--variant", "0"], first=5, workers=1)
    out.append(("lib_points_analogs", os.path.join(sd, "lib", "res_5.c3d")))
    C.run_driver(exe, "faults", 2, os.path.join(sd, "lib2"), args=["--chunks", "1", "--exhaustive_below", "0", "--stride", "100000"], first=0, workers=2, chunk=1)
    out.append(("lib_empty", os.path.join(sd, "lib2", "ref_0.c3d")))
    out.append(("lib_params_only", os.path.join(sd, "lib2", "ref_1.c3d")))
    import random
    k = 0
    want = 2 if q else 4
    i = 0
    while k < want and i < 400:
        content, L, meta = gen.gen_case(C.seed() + 99, i)
        i += 1
        b = c3dref.encode(content, L)
        if 1500 <= len(b) <= 3800 and meta["shape"]["nframes"] >= 1:
            p = os.path.join(sd, "enc_%d.c3d" % k)
            open(p, "wb").write(b)
            out.append(("encoded_%s" % "+".join(meta["variants"] or ["plain"]), p))
            k += 1
    for v in F.VENDOR:
        out.append(("vendor_" + os.path.basename(v), v))
    return out


def run(prop, tier):
    t0 = time.time()
    q = tier == "quick"
    exe = build.build_flavour("asan")
    wd = C.workdir("C16", tier)
    try:
        F.selftest_codec()
        sds = seeds(wd, exe, q)
        specs = []
        kinds = []
        per_seed = collections.Counter()
        for name, p in sds:
            b = open(p, "rb").read()
            ss = damage.specs_for(p, b, C.seed(), quick=q)
            if q:
                # quick keeps the exhaustive classes of the first (library-saved) seed and samples the others by a seeded stride
                if name.startswith("vendor"):
                    ss = ss[(C.seed() % 24)::24]
                elif name != "lib_points_analogs":
                    ss = [x for x in ss if x[0].startswith("field")][(C.seed() % 2)::2] + [x for x in ss if not x[0].startswith("field")][(C.seed() % 6)::6]
            elif name.startswith("vendor") and len(b) > 200000:
                ss = ss[(C.seed() % 8)::8]       # MB-sized inputs cost a second per load under ASan: every 8th spec, seeded phase (thorough)
            for kind, s in ss:
                specs.append(s); kinds.append((name, kind))
            per_seed[name] += len(ss)
            specs.append(p + "|none"); kinds.append((name, "undamaged"))
        specs += [sds[0][1] + "|zero=0", sds[0][1] + "|zero=1", sds[0][1] + "|zero=512", sds[0][1] + "|zero=5000"]
        kinds += [("synthetic", "all_zero")] * 4
        # quick: cap the volume by taking a seeded sample of the big classes, never of the exhaustive small-file classes
        lst = os.path.join(wd, "specs.txt")
        open(lst, "w").write("\n".join(specs) + "\n")
        fills = [190] if q else [0, 190]
        viols = []
        statuses = collections.Counter()
        outcomes = collections.Counter()
        ub = collections.Counter()
        budget_keys = collections.Counter()
        for fill in fills:
            out = os.path.join(wd, "out_%d" % fill)
            env = {"ASAN_OPTIONS": C.SAN_ENV["ASAN_OPTIONS"].replace("malloc_fill_byte=190", "malloc_fill_byte=%d" % fill)}
            C.run_driver(exe, "damage", len(specs), out, args=["--list", lst, "--timeout", "90" if q else "240", "--hardmult", "256"], env_extra=env, chunk=400)
            R = C.parse_out(out)
            statuses.update(R.status)
            ub.update(R.ub)
            for v in R.viol:
                i = v.get("case")
                v["detail"] = "input %s (seed %s, damage %s, fill %d): %s" % (specs[i].split("|", 1)[1] if i is not None else "?", kinds[i][0] if i is not None else "?", kinds[i][1] if i is not None else "?", fill, v["detail"])
                v["spec"] = specs[i] if i is not None else None
                viols.append(v)
            for case, line in R.lines.get("RES", []):
                outcomes[line.split()[2] + (":" + line.split()[3] if line.split()[2] == "threw" else "")] += 1
                if line.split()[2] == "threw" and line.split()[3] in ("non-std",):
                    viols.append(dict(prop="C16", key="non_standard_exception", detail=specs[case], case=case, spec=specs[case]))
            budget_cases = {}
            for case, bl in R.budget:
                budget_cases[case] = bl
            for case, bl in R.lines.get("BUDGET", []):      # soft stops of runs that were allowed to continue (thorough)
                budget_cases.setdefault(case, bl)
            for case, bl in sorted(budget_cases.items()):
                parts = bl.split()
                which = parts[1] if len(parts) > 1 else "?"
                sec = [x for x in parts if x.startswith("section=")]
                key = "budget:%s@%s" % (which, sec[0] if sec else "section=?")
                budget_keys[key] += 1
                viols.append(dict(prop="C16", key=key, detail="input %s (seed %s, damage %s): %s" % (specs[case].split("|", 1)[1], kinds[case][0], kinds[case][1], bl), case=case, spec=specs[case], log=os.path.join(out, "case_%d.log" % case)))
            if R.watchdog:
                for c in R.watchdog[:20]:
                    viols.append(dict(prop="C16", key="watchdog_backstop(inconclusive)", detail=specs[c], case=c, spec=specs[c]))
        by_kind = collections.Counter(k for _, k in kinds)
        kk = collections.Counter((n, k.split(":")[0]) for n, k in kinds)
        small = [n for n, p in sds if os.path.getsize(p) <= 4096]
        wd_inconc = [v for v in viols if v["key"].startswith("watchdog")]
        viols = [v for v in viols if not v["key"].startswith("watchdog")]
        cov = dict(evaluations=len(specs) * len(fills), distinct_nontrivial=len(set(specs)),
                   rule="one evaluation = one damaged byte sequence loaded in its own ASan process under step budgets (reads <= 256+4*size, reads after the stream failed <= 1024, allocated bytes <= 8MiB+400*size); damage: every truncation length and every single-byte overwrite with {0,1,0x7f,0x80,0xff,random} over header+parameter section of the small seeds, boundary values in every structural field (header words, record name length, group id, next-offset, type, dimension count, each extent, description length, block count), random field pairs, all-zero and empty files; distinct = distinct damage specifications",
                   samples=[specs[0], specs[len(specs) // 3], specs[2 * len(specs) // 3], specs[-1]],
                   seeds=[dict(name=n, size=os.path.getsize(p)) for n, p in sds], damage_specs_by_kind=dict(by_kind), outcomes=dict(outcomes),
                   child_end_status=dict(statuses), malloc_fill_bytes=fills, budget_stops=dict(budget_keys),
                   exhaustive=True, exhaustive_scope="all truncation lengths and all single-byte boundary overwrites of header+parameter bytes of the seeds <= 4 kB (%s); larger seeds and pairs are sampled" % small,
                   recoverable_ub_reports_counted_not_judged=dict(ub.most_common(6)))
        inconc = "watchdog backstop fired on %d inputs (wall clock, not a verdict): %s" % (len(wd_inconc), [v["detail"][-60:] for v in wd_inconc[:3]]) if wd_inconc else None

        def rinfo(v):
            return dict(mode="damage", flavour="asan", spec=v.get("spec"))
        rc = C.finish("C16", tier, "fault_enumeration", cov, viols, t0, replay_info=rinfo,
                      assumptions=["'time and memory proportional to the file size' is decided on logical steps with the stated constants, never on wall-clock time"], inconclusive=inconc)
        return rc
    finally:
        C.cleanup(wd)


def replay(prop, path):
    info = json.load(open(path))
    exe = build.build_flavour("asan")
    wd = C.workdir(prop, "replay")
    try:
        spec = info.get("spec")
        if not spec:
            print("no spec in replay file")
            return 2
        base = spec.split("|")[0]
        if not os.path.exists(base):
            print("base file %s no longer exists; re-run the check to regenerate seeds" % base)
            return 2
        lst = os.path.join(wd, "l.txt")
        open(lst, "w").write(spec + "\n")
        C.run_driver(exe, "damage", 1, os.path.join(wd, "o"), args=["--list", lst], workers=1)
        R = C.parse_out(os.path.join(wd, "o"))
        print(R.lines.get("RES"), R.budget, [v["key"] for v in R.viol])
        return 1 if (R.viol or R.budget) else 0
    finally:
        C.cleanup(wd)
