"""C17: content at the format's limits survives; beyond them saving refuses (or the file still loads to the same content).
Enumerated boundary cases L-1, L, L+1, far beyond for every capacity limit, alone and in pairs (driver mode `limits`)."""
import collections
import json
import os
import sys
import time

import build
import checks_files as F
import checks_hist as H
import common as C

sys.path.insert(0, os.path.join(C.VERIF, "ref"))
import c3dref  # noqa: E402
import gen  # noqa: E402
import gen12  # noqa: E402


def file_limit_cases(wd):
    """limits only reachable through files: group descriptions of 254/255 chars, last frame number 65534/65535, byte extremes"""
    d = os.path.join(wd, "filecases")
    os.makedirs(d, exist_ok=True)
    paths, what = [], []
    for L in (254, 255):
        c = gen12.base_content()
        c["groups"][2]["desc"] = b"g" * L
        c["params"].append(dict(gid=3, name=b"X", type=2, dims=[], values=[1], desc=b"p" * L, locked=False))
        p = os.path.join(d, "groupdesc_%d.c3d" % L)
        open(p, "wb").write(c3dref.encode(c, {}))
        paths.append(p); what.append("group_and_param_description_length=%d" % L)
    for last in (32769, 32777, 65534, 65535):        # numbering that straddles / lies above 32767 (the words are unsigned)
        c = gen12.base_content(first=last - 9, nframes=10)
        p = os.path.join(d, "lastframe_%d.c3d" % last)
        open(p, "wb").write(c3dref.encode(c, {}))
        paths.append(p); what.append("last_frame_number=%d" % last)
    for n in (126, 127):
        c = gen12.base_content()
        c["groups"][2]["name"] = b"G" * n
        c["params"].append(dict(gid=3, name=b"N" * n, type=2, dims=[], values=[-32768, 32767][n % 2:][:1], desc=b"", locked=bool(n % 2)))
        p = os.path.join(d, "names_%d.c3d" % n)
        open(p, "wb").write(c3dref.encode(c, {}))
        paths.append(p); what.append("group_and_param_name_length=%d" % n)
    c = gen12.base_content(extra_params=[dict(gid=3, name=b"EXT7", type=1, dims=[255, 2, 1, 1, 1, 1, 1], values=[(i % 256) - 128 for i in range(510)])])
    p = os.path.join(d, "dims7_255.c3d")
    open(p, "wb").write(c3dref.encode(c, {}))
    paths.append(p); what.append("7_dimensions_extent_255")
    lst = os.path.join(d, "list.txt")
    open(lst, "w").write("\n".join(paths) + "\n")
    return paths, what, lst


def run(prop, tier):
    t0 = time.time()
    q = tier == "quick"
    exe = build.build_flavour("asan")
    wd = C.workdir("C17", tier)
    try:
        out0 = os.path.join(wd, "count")
        C.run_driver(exe, "limits", 1, out0, args=["--count", "1", "--pairs", "1"], workers=1)
        R0 = C.parse_out(out0)
        total = int(R0.lines["RES"][0][1].split()[2])
        C.run_driver(exe, "limits", 1, os.path.join(wd, "count1"), args=["--count", "1", "--pairs", "0"], workers=1)
        singles = int(C.parse_out(os.path.join(wd, "count1")).lines["RES"][0][1].split()[2])
        # quick: all singles + a seeded 40-pair sample; thorough: everything
        out = os.path.join(wd, "limits")
        C.run_driver(exe, "limits", singles, out, args=["--pairs", "1", "--timeout", "600"], chunk=1)
        if q:
            import random
            r = random.Random(C.seed())
            pairs = sorted(r.sample(range(singles, total), min(40, total - singles)))
            for pidx in pairs:
                C.run_driver(exe, "limits", 1, out, args=["--pairs", "1", "--timeout", "600"], first=pidx, workers=1)
        else:
            C.run_driver(exe, "limits", total - singles, out, args=["--pairs", "1", "--timeout", "900"], first=singles, chunk=1)
        # the same singles once more with every custom group locked (the lock flag must not change what a limit means)
        outl = os.path.join(wd, "limits_locked")
        C.run_driver(exe, "limits", singles, outl, args=["--pairs", "1", "--timeout", "600", "--lockgroups", "1"], chunk=1)
        RL = C.parse_out(outl)
        R = C.parse_out(out)
        viols = list(R.viol) + list(RL.viol)
        for case, line in RL.lines.get("RES", []):
            R.lines["RES"].append((case, line))
        # the parameter-side limits and "more frames" once more on objects LOADED from files: group ids with gaps (placeholder groups
        # in the middle of the table) and frame numbers that end at 65535
        sdir = os.path.join(wd, "starts")
        os.makedirs(sdir, exist_ok=True)
        starts = []
        for k_ in range(200):
            content, L, meta = gen.gen_case(C.seed(), 993000 + k_, force=["sparse_ids"])
            if meta["shape"]["nframes"] >= 1 and meta["shape"]["npts"] >= 1 and len(content["groups"]) >= 3 and max(g["id"] for g in content["groups"]) > len(content["groups"]) and max(g["id"] for g in content["groups"]) < 100 and "empty_analog" not in meta["variants"] and meta["shape"].get("labels") == "equal" and "labels_vs_points" not in meta["variants"]:
                p_ = os.path.join(sdir, "sparse_ids.c3d")
                open(p_, "wb").write(c3dref.encode(content, L))
                starts.append(("loaded_sparse_group_ids", p_))
                break
        c_ = gen12.base_content(first=65535 - 9, nframes=10)
        p_ = os.path.join(sdir, "last_frame_65535.c3d")
        open(p_, "wb").write(c3dref.encode(c_, {}))
        starts.append(("loaded_last_frame_65535", p_))
        started = collections.Counter()
        for tag, sp in starts:
            outs_ = os.path.join(wd, "limits_" + tag)
            C.run_driver(exe, "limits", singles, outs_, args=["--pairs", "1", "--timeout", "600", "--start", sp], chunk=2)
            RS = C.parse_out(outs_)
            for v in RS.viol:
                v["key"] += "|" + tag
            viols += list(RS.viol)
            for case, line in RS.lines.get("RES", []):
                if "skipped_for_loaded_start" not in line:
                    started[tag] += 1
                    R.lines["RES"].append((case, line.replace(" saved ", " %s:saved " % tag) if " saved " in line else line))
        R.workload = dict(profile="limits", args=["--pairs", "1"])
        outcomes = collections.Counter()
        cases = []
        for case, line in R.lines.get("RES", []):
            parts = line.split()
            desc, res = parts[2], " ".join(parts[3:])
            cases.append((desc, res))
            outcomes[("within" if "within=1" in res else "beyond") + ":" + " ".join(parts[3:-1])] += 1
        # limits reachable only through files: load -> save -> load must keep the content (C04's oracle on limit content)
        paths, what, lst = file_limit_cases(wd)
        out2 = os.path.join(wd, "filelimits")
        C.run_driver(exe, "gens", len(paths), out2, args=["--list", lst, "--gens", "2"])
        R2 = C.parse_out(out2)
        for v in R2.viol:
            if v["prop"] in ("C04", "*"):
                i = v.get("case", 0)
                viols.append(dict(prop="C17", key="at_limit/file/" + what[i].split("=")[0] + "/" + v["key"].replace("/", "_"), detail=what[i] + ": " + v["detail"], case=i, files=[paths[i]]))
        # ... and what was loaded must be what an independent decoder reads from the limit file (frame numbers up to 65535, full-length names...)
        for i in range(len(paths)):
            ci, diffs = F._c04_cross((i, os.path.join(out2, "gen2_%d.c3d" % i), os.path.join(out2, "gen2_%d.json" % i), paths[i]))
            for key, detail in diffs or []:
                if key == "HARNESS":
                    raise C.Harness("file-limit cross-check failed on %s: %s" % (what[i], detail))
                viols.append(dict(prop="C17", key="at_limit/file/" + what[i].split("=")[0] + "/" + key.replace("/", "_"), detail=what[i] + ": " + detail, case=i, files=[paths[i]]))
        fl_ok = sum(1 for c, l in R2.lines.get("RES", []) if " ok " in l)
        for c, l in R2.lines.get("RES", []):
            if " ok " not in l:
                viols.append(dict(prop="C17", key="at_limit/file/" + what[c].split("=")[0] + "/refused", detail=what[c] + ": " + l, case=c, files=[paths[c]]))
        cov = dict(evaluations=len(cases) + len(paths), distinct_nontrivial=len(set(d for d, _ in cases)) + len(paths),
                   rule="one case = content at L-1, L, L+1 or far beyond one capacity limit (description 255, names 127, extents 255 for int/float/string count/string width, 255 points, 255 channels, 32767 frames, int16 extremes, 255 parameter blocks, 65535-byte record), alone (also with every custom group locked) and in pairs (both at L; one at L + one beyond); built through the API, saved, reloaded; at/below L: save must succeed and the reload must equal; beyond: save must throw or the reload must equal; plus reference-encoded files for limits only reachable through files (group descriptions, last frame 65535, 127-char names, 7 dimensions); distinct = distinct case descriptors",
                   samples=[dict(case=d, result=r) for d, r in cases[:3] + cases[-2:]], outcomes=dict(outcomes), singles=singles, pairs_run=len(cases) - singles, pairs_total=total - singles,
                   limit_cases_on_loaded_objects=dict(started), file_limit_cases=dict(zip(what, ["ok"] * len(what))), file_limit_cases_completed=fl_ok, child_end_status=dict(R.status), exhaustive=not q,
                   exhaustive_scope="the enumerated boundary table (singles always complete; pairs complete in thorough)")
        inconc = None
        if len(cases) < 2 * singles:
            inconc = "only %d of %d single cases produced a result" % (len(cases), singles)
        if R.watchdog:
            inconc = "watchdog fired on limit cases %s" % R.watchdog[:5]
        return C.finish("C17", tier, "exploration", cov, viols, t0, replay_info=lambda v: dict(mode="limits", flavour="asan", args=["--pairs", "1", "--timeout", "900"]),
                        assumptions=["the limit table is the one named in the property statement"], inconclusive=inconc)
    finally:
        C.cleanup(wd)


def replay(prop, path):
    info = json.load(open(path))
    if info.get("files"):
        info["mode"] = "gens"
        info["args"] = ["--gens", "2"]
        json.dump(info, open(path, "w"), indent=1)
        return F.replay(prop, path)
    return H.replay(prop, path)
