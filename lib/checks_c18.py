"""C18: independent objects can be used from different threads.  ThreadSanitizer build (alone), T threads per round released from a
barrier, schedules perturbed through the library's section hook; every thread's digest must equal the digest of the same job run alone."""
import collections
import glob
import json
import os
import re
import sys
import time

import build
import checks_files as F
import checks_hist as H
import common as C


def tsan_reports(errtext):
    """Split stderr into ThreadSanitizer report blocks; return list of (kind, [top ezc3d frame per stack], text)."""
    out = []
    for blk in re.split(r"(?m)^==================\n", errtext):
        m = re.search(r"WARNING: ThreadSanitizer: ([^\n(]+)", blk)
        if not m:
            continue
        kind = m.group(1).strip().replace(" ", "_")
        stacks = re.split(r"\n\s*\n", blk)
        tops = []
        for st in stacks:
            if "#0" not in st:
                continue
            f = re.search(r"#\d+ (ezc3d::[A-Za-z0-9_:~]+)", st)
            anyf = re.search(r"#0 ([A-Za-z_][A-Za-z0-9_:~<>]*)", st)
            tops.append(f.group(1) if f else ("(" + anyf.group(1) + ")" if anyf else "?"))
        out.append((kind, tops[:2], blk[:1500]))
    return out


def run(prop, tier):
    t0 = time.time()
    q = tier == "quick"
    exe = build.build_flavour("tsan")
    wd = C.workdir("C18", tier)
    try:
        F.selftest_codec()
        paths, metas, lst = F.make_corpus(os.path.join(wd, "corpus"), 6, first=500000, vendor=False)
        # two more shared inputs with FEWER labels than points/channels (the loader invents names for the rest) and with events
        p2, m2, l2 = F.make_corpus(os.path.join(wd, "corpus2"), 12, first=501000, vendor=False, force=["labels_vs_points", "events"])
        fewer = [p for p, m in zip(p2, m2) if m["shape"].get("labels") in ("fewer", "none") and m["shape"].get("npts", 0) >= 2][:2]
        shared = [p for p in paths if os.path.getsize(p) < 60000][:3] + fewer + ["/repo/test/c3dFiles/Optotrak.c3d"]
        slst = os.path.join(wd, "shared.txt")
        open(slst, "w").write("\n".join(shared) + "\n")
        rounds = 48 if q else 640
        out = os.path.join(wd, "rounds")
        C.run_driver(exe, "threads", rounds, out, args=["--list", slst, "--timeout", "300"], workers=4 if q else 6, chunk=2)
        R = C.parse_out(out)
        viols = [v for v in R.viol if v["prop"] in ("C18", "*")]
        reports = collections.Counter()
        nrep = 0
        for ep in glob.glob(os.path.join(out, "case_*.err")):
            txt = open(ep, errors="replace").read()
            case = int(re.search(r"case_(\d+)\.err", ep).group(1))
            for kind, tops, blk in tsan_reports(txt):
                nrep += 1
                lib = [t for t in tops if t.startswith("ezc3d::")]
                key = "tsan:%s/%s" % (kind, "|".join(sorted(set(tops))))
                reports[key] += 1
                if not lib and "vf::" in blk and "ezc3d::" not in blk:
                    raise C.Harness("ThreadSanitizer report inside the driver itself (harness bug): %s" % blk[:600])
                viols.append(dict(prop="C18", key=key, detail="round %d: %s" % (case, blk[:700].replace("\n", " | ")), case=case, log=os.path.join(out, "case_%d.log" % case)))
        sigs = R.obs.get("interleaving", {})
        overlaps = {k[8:]: v for k, v in R.cnt.items() if k.startswith("overlap:")}
        threads_seen = collections.Counter()
        for case, line in R.lines.get("RES", []):
            m = re.search(r"threads=(\d+)", line)
            if m:
                threads_seen[m.group(1)] += 1
        cov = dict(evaluations=rounds, distinct_nontrivial=len(sigs),
                   rule="one evaluation = one round of T in {2,4,8,16} threads released from a barrier, each running an independent seeded job (build, refused calls, save to its own path, reload, edit, save, reload, load of files shared by all threads, two failing loads, destroy) under ThreadSanitizer, with seeded sched_yield/usleep at the library's section hooks; afterwards the same jobs run alone and digests (snapshots + saved bytes + exception classes) are compared; distinct = distinct global orders of section entries across threads (interleaving signatures)",
                   samples=[l for c, l in R.lines.get("RES", [])[:4]], rounds_by_thread_count=dict(threads_seen),
                   overlapping_section_pairs_observed=overlaps, overlapping_pairs_total=sum(overlaps.values()), tsan_reports=nrep, tsan_report_keys=dict(reports),
                   shared_input_files=[os.path.basename(s) for s in shared], child_end_status=dict(R.status))
        inconc = None
        if len(sigs) < 10 or sum(overlaps.values()) < 50:
            inconc = "too little concurrency observed: %d interleaving signatures, %d overlapping section pairs" % (len(sigs), sum(overlaps.values()))
        if R.watchdog:
            inconc = "watchdog fired on rounds %s" % R.watchdog[:5]
        if R.harness:
            raise C.Harness("job threw in rounds %s" % R.harness[:5])
        return C.finish("C18", tier, "exploration", cov, viols, t0, replay_info=lambda v: dict(mode="threads", flavour="tsan", args=["--list", slst]),
                        assumptions=["ThreadSanitizer sees the synchronisation it intercepts; the library uses std::fstream, no stdio locks", "print() is excluded: std::cout is shared by definition"],
                        inconclusive=inconc)
    finally:
        C.cleanup(wd)


def replay(prop, path):
    print("C18 replays are schedule dependent: re-run ./check C18 quick (same VERIF_SEED) and inspect the TSan report in the violation detail")
    info = json.load(open(path))
    print(json.dumps(info, indent=1)[:3000])
    return 1
