"""C19: results do not depend on optimisation level or library kind.  The same driver source is linked against the library built by the
repository's own CMake in {Debug(-O0), Release(-O3), RelWithDebInfo(-O2), MinSizeRel(-Os)} x {shared, static} (thorough: also clang++);
event logs, snapshots and saved bytes of the same seeded workloads must be identical across all configurations."""
import collections
import hashlib
import json
import os
import sys
import time
from concurrent.futures import ThreadPoolExecutor

import build
import checks_files as F
import checks_hist as H
import common as C

KEEP = ("EV ", "VIOL ", "RES ", "FINAL ", "CNT ", "OBS ", "END ")


def filtered_log(path):
    try:
        return [l.rstrip("\n") for l in open(path, errors="replace") if l.startswith(KEEP)]
    except FileNotFoundError:
        return ["<no log>"]


def sha(path):
    try:
        return hashlib.sha256(open(path, "rb").read()).hexdigest()
    except FileNotFoundError:
        return "<absent>"


def run(prop, tier):
    t0 = time.time()
    q = tier == "quick"
    wd = C.workdir("C19", tier)
    try:
        F.selftest_codec()
        cfgs = [(bt, kind, "g++") for bt in build.CFG_TYPES for kind in build.CFG_KINDS]
        if not q:
            cfgs += [(bt, kind, "clang++") for bt in ("Debug", "Release") for kind in build.CFG_KINDS]
        # one more "configuration": the library exactly as shipped, i.e. WITHOUT this framework's hook guard defined (all the others have it);
        # no step budgets there, so it does not get the damaged inputs
        cfgs.append(("Release", "static", "g++", "noguard"))
        with ThreadPoolExecutor(9) as ex:
            exes = list(ex.map(lambda c: build.build_cfg(c[0], c[1], cxx=c[2], jobs=4, guard=len(c) == 3), cfgs))
        names = ["-".join(c) for c in cfgs]
        NOGUARD = names[-1]
        nh = 150 if q else 2000
        nf = 200 if q else 3000
        paths, metas, lst = F.make_corpus(os.path.join(wd, "corpus"), nf, first=600000)
        import gen12
        import c3dref
        cdir = os.path.join(wd, "c12")
        os.makedirs(cdir, exist_ok=True)
        c12 = []
        for name, content, L, what in gen12.cases(C.seed()):
            p = os.path.join(cdir, name + ".c3d")
            open(p, "wb").write(c3dref.encode(content, L))
            c12.append(p)
        # two well-formed files with a very long run of zero bytes before the header (declared-supported layout, any length)
        import gen
        longz = []
        for k, nz in enumerate((300000, 1200000)):
            content, L, meta = gen.gen_case(C.seed(), 990000 + k)
            L["zeros"] = nz
            p = os.path.join(cdir, "long_zero_run_%d.c3d" % nz)
            open(p, "wb").write(c3dref.encode(content, L))
            longz.append(p)
        # files whose header frame rate and POINT:RATE differ by one unit in the last place, at rates with many decimals (the loader reconciles
        # the two through a scaled integer comparison: any rounding/contraction difference between builds shows in the loaded header rate)
        import struct
        ulp = []
        for k, rate in enumerate((1000.123, 2000.4567, 960.7, 1234.5678, 4800.333, 839.99, 1000.0001, 59.94006)):
            content, L, meta = gen.gen_case(C.seed(), 991000 + k, ntsc_ok=False)
            rb = struct.unpack("<I", struct.pack("<f", rate))[0]
            sub = content["sub"]
            for q_ in content["params"]:
                if q_["name"] == b"RATE" and q_["type"] == 4:
                    gname = [g["name"] for g in content["groups"] if g["id"] == q_["gid"]][0]
                    q_["values"] = [rb] if gname == b"POINT" else [struct.unpack("<I", struct.pack("<f", struct.unpack("<f", struct.pack("<I", rb))[0] * sub))[0]]
            for delta in (-1, 1):
                content["rate_bits"] = rb + delta
                p = os.path.join(cdir, "rate_ulp_%d_%s.c3d" % (k, "m" if delta < 0 else "p"))
                open(p, "wb").write(c3dref.encode(content, {}))
                ulp.append(p)
        # files whose RESERVED header words (13..147 and 235..256) are not zero: the library carries them as four integers read from 270 / 44
        # bytes at once, i.e. through arithmetic far outside the integer range; whatever it makes of them must not depend on the build
        import random as _random
        resv = []
        for k in range(6):
            content, L, meta = gen.gen_case(C.seed(), 992000 + k)
            b = bytearray(c3dref.encode(content, {}))
            rr = _random.Random(C.seed() * 31 + k)
            for off in list(range(24, 294)) + list(range(468, 512)):
                if k < 2 or rr.random() < 0.3:
                    b[off] = rr.randint(1, 255)
            p = os.path.join(cdir, "reserved_words_%d.c3d" % k)
            open(p, "wb").write(bytes(b))
            resv.append(p)
        allfiles = paths + c12 + longz + ulp + resv
        lst = os.path.join(wd, "all.txt")
        open(lst, "w").write("\n".join(allfiles) + "\n")
        import damage
        dspecs = []
        for sp in [p for p in paths if os.path.getsize(p) < 6000][:6]:
            ss = damage.specs_for(sp, open(sp, "rb").read(), C.seed(), quick=True)
            typ = [x for k, x in ss if k in ("field:prm.type", "field:prm.ndims")]          # element-size and dimension-count bytes: all of them
            oth = [x for k, x in ss if k.startswith("field") and k not in ("field:prm.type", "field:prm.ndims")]
            dspecs += typ + oth[(C.seed() % 9)::(9 if q else 1)]
        dspecs = dspecs[:2400 if q else 12000]
        dlst = os.path.join(wd, "damage.txt")
        open(dlst, "w").write("\n".join(dspecs) + "\n")
        hargs = ["--profile", "c01", "--maxops", "30", "--dump-final", "--maxdesc", "255"]
        statuses = collections.Counter()
        outs = {}
        nper = max(1, C.NCPU // 4)
        nfp = 96 if q else 600
        C.run_driver(exes[0], "limits", 1, os.path.join(wd, "count1"), args=["--count", "1", "--pairs", "0"], workers=1)
        nlim = int(C.parse_out(os.path.join(wd, "count1")).lines["RES"][0][1].split()[2])      # the single-limit cases of C17 (values at, beyond and far beyond every capacity limit, e.g. INT_MIN)
        HEAPFILLS = (85, 170)
        def runcfg(i):
            o1 = os.path.join(wd, "h_" + names[i])
            o2 = os.path.join(wd, "f_" + names[i])
            C.run_driver(exes[i], "hist", nh, o1, args=hargs, workers=nper)
            C.run_driver(exes[i], "loaddump", len(allfiles), o2, args=["--list", lst, "--resave", "1"], workers=nper)
            C.run_driver(exes[i], "fpprobe", nfp, os.path.join(wd, "p_" + names[i]), workers=nper)
            C.run_driver(exes[i], "limits", nlim, os.path.join(wd, "l_" + names[i]), args=["--pairs", "0", "--timeout", "600"], workers=nper, chunk=4)
            if names[i] != NOGUARD:
                C.run_driver(exes[i], "damage", len(dspecs), os.path.join(wd, "d_" + names[i]), args=["--list", dlst, "--timeout", "60"], workers=nper, chunk=100)
            if i == 0:
                # the first configuration twice more with another heap fill byte (glibc MALLOC_PERTURB_): a result that depends on memory the
                # library never wrote is the usual way builds come to differ; the fill byte exposes it without waiting for luck
                for fill in HEAPFILLS:
                    env = {"MALLOC_PERTURB_": str(fill)}
                    C.run_driver(exes[i], "damage", len(dspecs), os.path.join(wd, "d_%s@heapfill%d" % (names[i], fill)), args=["--list", dlst, "--timeout", "60"], workers=nper, chunk=100, env_extra=env)
                    C.run_driver(exes[i], "hist", nh, os.path.join(wd, "h_%s@heapfill%d" % (names[i], fill)), args=hargs, workers=nper, env_extra=env)
            return o1, o2
        with ThreadPoolExecutor(4) as ex:
            res = list(ex.map(runcfg, range(len(cfgs))))
        for n, r in zip(names, res):
            outs[n] = r
        viols = []
        base = names[0]
        compared = collections.Counter()
        abnormal = collections.Counter()
        for n in names:
            for d in outs[n]:
                for idx in [x for x in os.listdir(d) if x.startswith("index_")]:
                    for line in open(os.path.join(d, idx)):
                        st = line.split("\t")[1]
                        statuses[st] += 1
        for i in range(nh):
            ref = (filtered_log(os.path.join(outs[base][0], "case_%d.log" % i)), sha(os.path.join(outs[base][0], "final_%d.json" % i)), sha(os.path.join(outs[base][0], "final_%d.c3d" % i)))
            compared["history"] += 1
            for n in names[1:] + ["%s@heapfill%d" % (base, f) for f in HEAPFILLS]:
                hd = outs[n][0] if n in outs else os.path.join(wd, "h_" + n)
                cur = (filtered_log(os.path.join(hd, "case_%d.log" % i)), sha(os.path.join(hd, "final_%d.json" % i)), sha(os.path.join(hd, "final_%d.c3d" % i)))
                if cur != ref:
                    what = "event_log" if cur[0] != ref[0] else "final_snapshot" if cur[1] != ref[1] else "saved_bytes"
                    first = ""
                    if what == "event_log":
                        for a, b in zip(ref[0], cur[0]):
                            if a != b:
                                first = "%s  <>  %s" % (a[:160], b[:160])
                                break
                        else:
                            first = "log lengths %d / %d" % (len(ref[0]), len(cur[0]))
                    viols.append(dict(prop="C19", key="config_dependent/history/" + what, detail="history %d: %s vs %s differ in %s %s" % (i, base, n, what, first), case=i,
                                      log=os.path.join(hd, "case_%d.log" % i), workload=dict(args=hargs)))
                    break
        for i in range(len(allfiles)):
            ref = (filtered_log(os.path.join(outs[base][1], "case_%d.log" % i)), sha(os.path.join(outs[base][1], "snap_%d.json" % i)), sha(os.path.join(outs[base][1], "resave_%d.c3d" % i)))
            compared["file"] += 1
            for n in names[1:]:
                cur = (filtered_log(os.path.join(outs[n][1], "case_%d.log" % i)), sha(os.path.join(outs[n][1], "snap_%d.json" % i)), sha(os.path.join(outs[n][1], "resave_%d.c3d" % i)))
                if n == NOGUARD:       # the read counter comes from the hook
                    import re as _re
                    cur = ([_re.sub(r" reads=\d+", "", l) for l in cur[0]], cur[1], cur[2])
                    if cur == ([_re.sub(r" reads=\d+", "", l) for l in ref[0]], ref[1], ref[2]):
                        continue
                if cur != ref:
                    what = "outcome" if [l for l in cur[0] if not l.startswith("RES")] != [l for l in ref[0] if not l.startswith("RES")] else "reads_or_result" if cur[0] != ref[0] else "loaded_snapshot" if cur[1] != ref[1] else "resaved_bytes"
                    viols.append(dict(prop="C19", key="config_dependent/file/" + what, detail="%s: %s vs %s differ in %s" % (os.path.basename(allfiles[i]), base, n, what), case=i, files=[allfiles[i]]))
                    break
        for i in range(nfp):
            ref = filtered_log(os.path.join(wd, "p_" + base, "case_%d.log" % i))
            compared["float_environment_probe"] += 1
            for n in names[1:]:
                cur = filtered_log(os.path.join(wd, "p_" + n, "case_%d.log" % i))
                if cur != ref:
                    first = next(("%s  <>  %s" % (a[:200], b[:200]) for a, b in zip(ref, cur) if a != b), "log lengths differ")
                    viols.append(dict(prop="C19", key="config_dependent/float_environment_probe", detail="probe %d: %s vs %s: %s" % (i, base, n, first), case=i))
                    break
        for i in range(nlim):
            ref = [x for x in filtered_log(os.path.join(wd, "l_" + base, "case_%d.log" % i)) if not x.startswith("CNT")]
            compared["limit_case"] += 1
            for n in names[1:]:
                cur = [x for x in filtered_log(os.path.join(wd, "l_" + n, "case_%d.log" % i)) if not x.startswith("CNT")]
                if cur != ref:
                    first = next(("%s  <>  %s" % (a[:160], b[:160]) for a, b in zip(ref, cur) if a != b), "log lengths differ")
                    viols.append(dict(prop="C19", key="config_dependent/limit_case", detail="limit case %d: %s vs %s: %s" % (i, base, n, first), case=i))
                    break
        for i in range(len(dspecs)):
            def outcome(n):
                l = [x for x in filtered_log(os.path.join(wd, "d_" + n, "case_%d.log" % i)) if x.startswith(("RES", "END", "EV"))]
                out = []
                for x in l:
                    if x.startswith("RES"):
                        t = x.split()
                        # ok + snapshot digest, or threw + class.  (Until fix 5023dbd the digest was compared only when nothing had been read
                        # past the end of the file: a short read left stale heap memory in the buffer.  The buffer is cleared now, so the
                        # result of EVERY damaged input must be the same in every configuration.)
                        out.append(" ".join(t[:4]))
                    elif x.startswith("EV"):
                        continue
                    else:
                        out.append(x)
                return out
            ref = outcome(base)
            compared["damaged_input"] += 1
            for n in [x for x in names[1:] if x != NOGUARD] + ["%s@heapfill%d" % (base, f) for f in HEAPFILLS]:
                cur = outcome(n)
                if cur != ref:
                    viols.append(dict(prop="C19", key="config_dependent/damaged_input_outcome", detail="%s: %s gives %s, %s gives %s" % (dspecs[i].split("|", 1)[1], base, ref[-1:], n, cur[-1:]), case=i))
                    break
        cov = dict(evaluations=(nh + len(allfiles) + nfp + nlim) * len(cfgs) + len(dspecs) * (len(cfgs) - 1), distinct_nontrivial=nh + len(allfiles) + nfp + nlim + len(set(dspecs)),
                   rule="each seeded API history (with final save) and each corpus / pattern file (load, snapshot, re-save) is executed by the same driver linked against every configuration of the library built by the repository's CMake; filtered event logs (operations, outcomes incl. exception classes, monitor lines), snapshot JSON and SHA-256 of saved files must be identical to the first configuration; plus a floating-point-environment probe (rates at the extremes of the float range driving the library's only float arithmetic); distinct = distinct workload items",
                   samples=[dict(configurations=names), dict(history_args=hargs), dict(file=os.path.basename(allfiles[0]))], configurations=names,
                   items_compared=dict(compared), child_end_status_all_configs=dict(statuses))
        inconc = None
        if statuses.get("ok", 0) < 0.95 * sum(statuses.values()):
            inconc = "abnormal child ends: %s" % dict(statuses)
        return C.finish("C19", tier, "exploration", cov, viols, t0, replay_info=lambda v: dict(mode="hist", flavour="plain", args=hargs),
                        assumptions=["only configurations buildable in this sandbox (g++ 12, clang++ 14, x86-64)", "the driver itself is compiled identically (-O1) for every configuration"], inconclusive=inconc)
    finally:
        C.cleanup(wd)


def replay(prop, path):
    print("re-run ./check C19 quick with the same VERIF_SEED; the replay file names the differing configurations")
    print(open(path).read()[:3000])
    return 1
