"""File-level checks built on the independent reference codec (ref/c3dref.py):
C02 load == decode, C03 saved bytes self-consistent, C04 load/save generations, C12 exhaustive value patterns."""
import collections
import glob
import json
import os
import struct
import sys
import time
from multiprocessing import Pool

import build
import common as C

sys.path.insert(0, os.path.join(C.VERIF, "ref"))
import c3dref  # noqa: E402
import compare  # noqa: E402
import gen  # noqa: E402

VENDOR = ["/repo/test/c3dFiles/Vicon.c3d", "/repo/test/c3dFiles/Qualisys.c3d", "/repo/test/c3dFiles/Optotrak.c3d"]


def selftest_codec():
    bad = gen.selftest(120, seed=C.seed() + 17)
    if bad:
        raise C.Harness("reference codec self-test failed: %s" % (bad[:3],))
    for v in VENDOR:
        d = c3dref.decode(open(v, "rb").read())
        if d["problems"] or d["d_hdr"] != d["d_after"]:
            raise C.Harness("reference decoder disagrees with vendor file %s: %s" % (v, d["problems"][:3]))


def _gen_one(a):
    seed, idx, outdir, kw = a
    content, L, meta = gen.gen_case(seed, idx, **kw)
    b = c3dref.encode(content, L)
    p = os.path.join(outdir, "f%05d.c3d" % idx)
    with open(p, "wb") as f:
        f.write(b)
    return p, meta


def make_corpus(outdir, n, first=0, vendor=True, **kw):
    os.makedirs(outdir, exist_ok=True)
    with Pool(C.NCPU) as pool:
        res = pool.map(_gen_one, [(C.seed(), first + i, outdir, kw) for i in range(n)], chunksize=8)
    paths = [p for p, m in res]
    metas = [m for p, m in res]
    if vendor:
        for v in VENDOR:
            paths.append(v)
            metas.append(dict(idx=-1, variants=["vendor:" + os.path.basename(v)], shape={}, layout={}))
    lst = os.path.join(outdir, "list.txt")
    open(lst, "w").write("\n".join(paths) + "\n")
    return paths, metas, lst


def _cmp_one(a):
    i, path, snap = a
    try:
        b = open(path, "rb").read()
        D = c3dref.decode(b)
        if not os.path.exists(snap):
            return i, None
        S = compare.norm_snapshot(json.load(open(snap)))
        return i, compare.loaded_vs_ref(S, D)
    except Exception as e:  # comparator failure is a harness problem
        return i, [("HARNESS", "%s: %s" % (type(e).__name__, e))]


def results_by_case(R):
    res = {}
    for case, l in R.lines.get("RES", []):
        res[case] = l
    return res


# ------------------------------------------------------------------------------------------------- C02
def run_c02(tier, t0):
    n = 600 if tier == "quick" else 10000
    exe = build.build_flavour("asan")
    selftest_codec()
    wd = C.workdir("C02", tier)
    try:
        paths, metas, lst = make_corpus(os.path.join(wd, "corpus"), n)
        out = os.path.join(wd, "out")
        C.run_driver(exe, "loaddump", len(paths), out, args=["--list", lst])
        R = C.parse_out(out)
        res = results_by_case(R)
        viols = list(R.viol)
        with Pool(C.NCPU) as pool:
            cmpres = pool.map(_cmp_one, [(i, paths[i], os.path.join(out, "snap_%d.json" % i)) for i in range(len(paths))], chunksize=8)
        compared = 0
        variants = collections.Counter()
        shapes = set()
        for i, diffs in cmpres:
            m = metas[i]
            for v in m["variants"] or ["plain"]:
                variants[v] += 1
            shapes.add(json.dumps(m.get("shape", {}), sort_keys=True) + json.dumps(m.get("layout", {}), sort_keys=True, default=str))
            if diffs is None:
                line = res.get(i, "")
                if " threw " in line:
                    viols.append(dict(prop="C02", key="well_formed_file_refused/" + line.split(" threw ")[1].split(" ")[0], detail="%s variants=%s: %s" % (os.path.basename(paths[i]), m["variants"], line), case=i, files=[paths[i]], log=os.path.join(out, "case_%d.log" % i)))
                continue
            compared += 1
            for key, detail in diffs:
                if key == "HARNESS":
                    raise C.Harness("comparator failed on %s: %s" % (paths[i], detail))
                viols.append(dict(prop="C02", key=key, detail="%s variants=%s shape=%s: %s" % (os.path.basename(paths[i]), m["variants"], m.get("shape"), detail), case=i, files=[paths[i]], log=os.path.join(out, "case_%d.log" % i)))
        samples = [dict(file=os.path.basename(paths[i]), variants=metas[i]["variants"], shape=metas[i].get("shape"), layout=metas[i].get("layout"), result=res.get(i, "")[:120]) for i in (0, 1, 2, 3, len(paths) - 1)]
        cov = dict(evaluations=len(paths), distinct_nontrivial=len(shapes), rule="one well-formed file per case from the spec-level encoder (layout variants alone and combined x content shapes) plus the 3 vendor files; distinct = distinct (shape, layout) descriptors; every file is loaded by the library (ASan build, one process each) and the snapshot compared field by field with the independent decoder",
                   samples=samples, files_compared=compared, layout_variant_counts=dict(variants), child_end_status=dict(R.status),
                   recoverable_ub_reports=dict(R.ub.most_common(6)), codec_selftest="decode(encode(x))==x on 120 cases; vendor files decode with exact pointers")
        inconc = None if compared >= 0.9 * len(paths) else "only %d of %d files were compared" % (compared, len(paths))
        return C.finish("C02", tier, "exploration", cov, viols, t0, replay_info=lambda v: dict(mode="loaddump", flavour="asan", note="file copied next to this json"),
                        assumptions=["the reference codec (ref/c3dref.py) implements the C3D specification correctly; it is self-tested and agrees with the three vendor files",
                                     "well-formed = produced by the encoder: consistent header/parameters, little-endian, float data, data directly after the parameter blocks"],
                        inconclusive=inconc)
    finally:
        C.cleanup(wd)


def run(prop, tier):
    t0 = time.time()
    return {"C02": run_c02, "C03": run_c03, "C04": run_c04, "C12": run_c12}[prop](tier, t0)


def replay(prop, path):
    info = json.load(open(path))
    exe = build.build_flavour("asan")
    wd = C.workdir(prop, "replay")
    try:
        files = [f for f in info.get("files", []) if f.endswith(".c3d")]
        if not files:
            print("replay file has no input attached")
            return 2
        lst = os.path.join(wd, "list.txt")
        open(lst, "w").write(files[0] + "\n")
        mode = info.get("mode", "loaddump")
        C.run_driver(exe, mode, 1, os.path.join(wd, "out"), args=["--list", lst] + info.get("args", []), workers=1)
        R = C.parse_out(os.path.join(wd, "out"))
        viols = list(R.viol)
        snap = os.path.join(wd, "out", "snap_0.json")
        if mode == "loaddump" and os.path.exists(snap):
            _, diffs = _cmp_one((0, files[0], snap))
            for k, d in diffs or []:
                viols.append(dict(prop=prop, key=k, detail=d))
        for v in viols:
            print("REPLAYED VIOL %s %s | %s" % (v["prop"], v["key"], v["detail"][:300]))
        if any(v["key"] == info.get("key") for v in viols):
            print("VIOLATION property=%s replay=%s" % (prop, path))
            return 1
        return 1 if viols else 0
    finally:
        C.cleanup(wd)


def run_c03(tier, t0):
    raise C.Harness("not built yet")


def run_c04(tier, t0):
    raise C.Harness("not built yet")


def run_c12(tier, t0):
    raise C.Harness("not built yet")
