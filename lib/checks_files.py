"""File-level checks built on the independent reference codec (ref/c3dref.py):
C02 load == decode, C03 saved bytes self-consistent, C04 load/save generations, C12 exhaustive value patterns."""
import collections
import glob
import json
import os
import struct
import sys
import time
from multiprocessing import Pool

import build
import common as C

sys.path.insert(0, os.path.join(C.VERIF, "ref"))
import c3dref  # noqa: E402
import compare  # noqa: E402
import gen  # noqa: E402

VENDOR = ["/repo/test/c3dFiles/Vicon.c3d", "/repo/test/c3dFiles/Qualisys.c3d", "/repo/test/c3dFiles/Optotrak.c3d"]


def selftest_codec():
    bad = gen.selftest(120, seed=C.seed() + 17)
    if bad:
        raise C.Harness("reference codec self-test failed: %s" % (bad[:3],))
    for v in VENDOR:
        d = c3dref.decode(open(v, "rb").read())
        if d["problems"] or d["d_hdr"] != d["d_after"]:
            raise C.Harness("reference decoder disagrees with vendor file %s: %s" % (v, d["problems"][:3]))


def _gen_one(a):
    seed, idx, outdir, kw = a
    content, L, meta = gen.gen_case(seed, idx, **kw)
    b = c3dref.encode(content, L)
    p = os.path.join(outdir, "f%05d.c3d" % idx)
    with open(p, "wb") as f:
        f.write(b)
    if idx % 3 == 0:
        # a decoy the driver loads first in the same process: same shape (as many points, channels, frames), every label and value
        # different.  What is then loaded from the real file must not depend on it.
        import copy
        d = copy.deepcopy(content)
        for q in d["params"]:
            if q["name"] in (b"LABELS", b"DESCRIPTIONS", b"UNITS") and q["type"] == -1:
                q["values"] = [bytes(reversed(v)) if len(set(v)) > 1 else bytes((c ^ 1) if c > 32 else c for c in v) for v in q["values"]]
        # ... and the groups numbered the other way round (what a loader remembers about "which id is POINT" must not carry over)
        ids = sorted(g["id"] for g in d["groups"])
        remap = dict(zip(ids, reversed(ids)))
        for g in d["groups"]:
            g["id"] = remap[g["id"]]
        for q in d["params"]:
            q["gid"] = remap.get(q["gid"], q["gid"])
        d["frames"] = [([tuple((w ^ 0x00400000) & 0xFFFFFFFF for w in pt) for pt in pts], [[w ^ 0x00010000 for w in sf] for sf in an]) for pts, an in d["frames"]]
        try:
            with open(p + ".decoy", "wb") as f:
                f.write(c3dref.encode(d, {}))
        except Exception:
            pass
    return p, meta


def make_corpus(outdir, n, first=0, vendor=True, **kw):
    os.makedirs(outdir, exist_ok=True)
    with Pool(C.NCPU) as pool:
        res = pool.map(_gen_one, [(C.seed(), first + i, outdir, kw) for i in range(n)], chunksize=8)
    paths = [p for p, m in res]
    metas = [m for p, m in res]
    if vendor:
        for v in VENDOR:
            paths.append(v)
            metas.append(dict(idx=-1, variants=["vendor:" + os.path.basename(v)], shape={}, layout={}))
    lst = os.path.join(outdir, "list.txt")
    open(lst, "w").write("\n".join(paths) + "\n")
    return paths, metas, lst


def _cmp_one(a):
    i, path, snap = a
    try:
        b = open(path, "rb").read()
        D = c3dref.decode(b)
        if not os.path.exists(snap):
            return i, None
        S = compare.norm_snapshot(json.load(open(snap)))
        return i, compare.loaded_vs_ref(S, D)
    except Exception as e:  # comparator failure is a harness problem
        return i, [("HARNESS", "%s: %s" % (type(e).__name__, e))]


def results_by_case(R):
    res = {}
    for case, l in R.lines.get("RES", []):
        res[case] = l
    return res


# ------------------------------------------------------------------------------------------------- C02
def run_c02(tier, t0):
    n = 600 if tier == "quick" else 50000
    exe = build.build_flavour("asan")
    selftest_codec()
    wd = C.workdir("C02", tier)
    try:
        paths, metas, lst = make_corpus(os.path.join(wd, "corpus"), n)
        out = os.path.join(wd, "out")
        C.run_driver(exe, "loaddump", len(paths), out, args=["--list", lst])
        R = C.parse_out(out)
        res = results_by_case(R)
        viols = list(R.viol)
        with Pool(C.NCPU) as pool:
            cmpres = pool.map(_cmp_one, [(i, paths[i], os.path.join(out, "snap_%d.json" % i)) for i in range(len(paths))], chunksize=8)
        compared = 0
        variants = collections.Counter()
        shapes = set()
        for i, diffs in cmpres:
            m = metas[i]
            for v in m["variants"] or ["plain"]:
                variants[v] += 1
            shapes.add(json.dumps(m.get("shape", {}), sort_keys=True) + json.dumps(m.get("layout", {}), sort_keys=True, default=str))
            if diffs is None:
                line = res.get(i, "")
                if " threw " in line:
                    viols.append(dict(prop="C02", key="well_formed_file_refused/" + line.split(" threw ")[1].split(" ")[0], detail="%s variants=%s: %s" % (os.path.basename(paths[i]), m["variants"], line), case=i, files=[paths[i]], log=os.path.join(out, "case_%d.log" % i)))
                continue
            compared += 1
            for key, detail in diffs:
                if key == "HARNESS":
                    raise C.Harness("comparator failed on %s: %s" % (paths[i], detail))
                viols.append(dict(prop="C02", key=key, detail="%s variants=%s shape=%s: %s" % (os.path.basename(paths[i]), m["variants"], m.get("shape"), detail), case=i, files=[paths[i]], log=os.path.join(out, "case_%d.log" % i)))
        samples = [dict(file=os.path.basename(paths[i]), variants=metas[i]["variants"], shape=metas[i].get("shape"), layout=metas[i].get("layout"), result=res.get(i, "")[:120]) for i in (0, 1, 2, 3, len(paths) - 1)]
        cov = dict(evaluations=len(paths), distinct_nontrivial=len(shapes), rule="one well-formed file per case from the spec-level encoder (layout variants alone and combined x content shapes) plus the 3 vendor files; distinct = distinct (shape, layout) descriptors; every file is loaded by the library (ASan build, one process each) and the snapshot compared field by field with the independent decoder",
                   samples=samples, files_compared=compared, same_shape_decoy_loaded_first_in_the_process=R.cnt.get("decoy_loaded_first", 0), layout_variant_counts=dict(variants), child_end_status=dict(R.status),
                   recoverable_ub_reports=dict(R.ub.most_common(6)), codec_selftest="decode(encode(x))==x on 120 cases; vendor files decode with exact pointers")
        inconc = None if compared >= 0.9 * len(paths) else "only %d of %d files were compared" % (compared, len(paths))
        return C.finish("C02", tier, "exploration", cov, viols, t0, replay_info=lambda v: dict(mode="loaddump", flavour="asan", note="file copied next to this json"),
                        assumptions=["the reference codec (ref/c3dref.py) implements the C3D specification correctly; it is self-tested and agrees with the three vendor files",
                                     "well-formed = produced by the encoder: consistent header/parameters, little-endian, float data, data directly after the parameter blocks"],
                        inconclusive=inconc)
    finally:
        C.cleanup(wd)


def run(prop, tier):
    t0 = time.time()
    return {"C02": run_c02, "C03": run_c03, "C04": run_c04, "C12": run_c12}[prop](tier, t0)


def replay(prop, path):
    info = json.load(open(path))
    exe = build.build_flavour("asan")
    wd = C.workdir(prop, "replay")
    try:
        files = [f for f in info.get("files", []) if f.endswith(".c3d")]
        if not files:
            print("replay file has no input attached")
            return 2
        lst = os.path.join(wd, "list.txt")
        open(lst, "w").write(files[0] + "\n")
        mode = info.get("mode", "loaddump")
        C.run_driver(exe, mode, 1, os.path.join(wd, "out"), args=["--list", lst] + info.get("args", []), workers=1)
        R = C.parse_out(os.path.join(wd, "out"))
        viols = list(R.viol)
        snap = os.path.join(wd, "out", "snap_0.json")
        if mode == "loaddump" and os.path.exists(snap):
            _, diffs = _cmp_one((0, files[0], snap))
            for k, d in diffs or []:
                viols.append(dict(prop=prop, key=k, detail=d))
        for v in viols:
            print("REPLAYED VIOL %s %s | %s" % (v["prop"], v["key"], v["detail"][:300]))
        if any(v["key"] == info.get("key") for v in viols):
            print("VIOLATION property=%s replay=%s" % (prop, path))
            return 1
        return 1 if viols else 0
    finally:
        C.cleanup(wd)


def _c03_one(a):
    tag, i, fpath, jpath, gaps = a
    try:
        if not os.path.exists(fpath):
            return tag, i, None, None
        b = open(fpath, "rb").read()
        S = compare.norm_snapshot(json.load(open(jpath))) if jpath and os.path.exists(jpath) else None
        diffs, D = compare.saved_consistency(S, b, gaps=gaps)
        residue = None
        if D is not None:
            residue = (D["end_of_records"] - D["p0"]) % 512
            nblk = D["nblocks"]
        else:
            nblk = None
        return tag, i, diffs, (residue, nblk)
    except Exception as e:
        import traceback
        return tag, i, [("HARNESS", "%s: %s %s" % (type(e).__name__, e, traceback.format_exc()[-300:]))], None


def run_c03(tier, t0):
    nh = 700 if tier == "quick" else 20000
    nres = 520 if tier == "quick" else 3100
    exe = build.build_flavour("asan")
    selftest_codec()
    wd = C.workdir("C03", tier)
    try:
        viols = []
        jobs = []
        # (a) objects built through the API, (b) load-then-edit, both with final save + snapshot
        corp_paths, corp_metas, lst = make_corpus(os.path.join(wd, "corpus"), 120 if tier == "quick" else 600, first=200000, vendor=False)
        # ... plus files whose data start at block 256/257 (a loaded POINT:DATA_START above 255: both bytes of the rewritten pointer matter)
        p2, m2, l2 = make_corpus(os.path.join(wd, "corpus_ds"), 8 if tier == "quick" else 40, first=205000, vendor=False, data_block_min=256)
        corp_paths += p2; corp_metas += m2
        open(lst, "a").write("\n".join(p2) + "\n")
        workloads = [("api", ["--profile", "c01", "--maxops", "36", "--dump-final", "--maxdesc", "255"], int(nh * 0.45)),
                     ("api_refusals", ["--profile", "c10", "--maxops", "36", "--dump-final"], int(nh * 0.15)),
                     ("load_then_edit", ["--profile", "mixed", "--maxops", "14", "--dump-final", "--start", lst, "--maxdesc", "255"], int(nh * 0.3)),
                     ("gaps", ["--profile", "c06", "--maxops", "30", "--dump-final"], int(nh * 0.1))]
        first = 0
        allR = []
        flags = {}
        for tag, args, cnt in workloads:
            out = os.path.join(wd, tag)
            C.run_driver(exe, "hist", cnt, out, args=args, first=first)
            R = C.parse_out(out)
            R.workload = dict(profile=tag, args=args, first=first, count=cnt)
            for v in R.viol:
                v["workload"] = R.workload
            allR.append(R)
            viols += [v for v in R.viol if v["prop"] in ("*",)]
            for case, line in R.lines.get("FINAL", []):
                fl = dict(kv.split("=") for kv in line.split()[2:])
                saved = line.split()[1] == "saved"
                flags[(tag, case)] = (saved, fl)
                if not saved:
                    if fl.get("wild") == "0" and fl.get("managedEdited") == "0" and fl.get("incomplete") == "0" and fl.get("offSpec") == "0":
                        viols.append(dict(prop="C03", key="save_threw", detail=line, case=case, log=os.path.join(out, "case_%d.log" % case), workload=R.workload))
                    continue
                if fl.get("managedEdited") == "1" or fl.get("offSpec") == "1" or fl.get("wild") == "1" or fl.get("incomplete") == "1":
                    continue
                jobs.append((tag, case, os.path.join(out, "final_%d.c3d" % case), os.path.join(out, "final_%d.json" % case), fl.get("gaps") == "1"))
            first += cnt
        # (c) residue sweep, fresh and loaded objects
        for variant in (0, 1, 3):
            out = os.path.join(wd, "residue%d" % variant)
            C.run_driver(exe, "residue", nres, out, args=["--variant", str(variant)])
            R = C.parse_out(out)
            R.workload = dict(profile="residue", args=["--variant", str(variant)])
            allR.append(R)
            viols += [v for v in R.viol if v["prop"] == "*"]
            for case, line in R.lines.get("RES", []):
                if " ok" not in line:
                    viols.append(dict(prop="C03", key="residue_sweep/" + line.split()[2], detail=line, case=case))
                else:
                    jobs.append(("residue%d" % variant, case, os.path.join(out, "res_%d.c3d" % case), os.path.join(out, "res_%d.json" % case), False))
        with Pool(C.NCPU) as pool:
            res = pool.map(_c03_one, jobs, chunksize=8)
        residues = {0: set(), 1: set(), 3: set()}
        blocks = collections.Counter()
        checked = collections.Counter()
        shapes = set()
        jobmap = {(j[0], j[1]): j for j in jobs}
        for tag, i, diffs, extra in res:
            if diffs is None:
                continue
            checked[tag] += 1
            if extra and extra[0] is not None:
                if tag.startswith("residue"):
                    residues[int(tag[-1])].add(extra[0])
                    blocks[extra[1]] += 1
                shapes.add((tag if tag.startswith("residue") else "h", extra))
            for key, detail in diffs:
                if key == "HARNESS":
                    raise C.Harness("C03 oracle failed on %s %d: %s" % (tag, i, detail))
                j = jobmap[(tag, i)]
                v = dict(prop="C03", key=key, detail="%s case %d: %s" % (tag, i, detail), case=i, files=[j[2]], log=os.path.join(os.path.dirname(j[2]), "case_%d.log" % i))
                for R in allR:
                    if R.workload["profile"] == tag:
                        v["workload"] = R.workload
                viols.append(v)
        exhaustive = all(len(residues[v]) == 512 for v in (0, 1, 3))
        samples = [dict(kind=j[0], case=j[1], file=os.path.basename(j[2])) for j in jobs[:3]] + [dict(kind="residue sweep", fillers="8 filler parameters, total extra bytes = case index", residues_seen_fresh=len(residues[0]), residues_seen_loaded=len(residues[1]))]
        cov = dict(evaluations=sum(checked.values()), distinct_nontrivial=len(shapes),
                   rule="every saved file is decoded by the pointer-following reference decoder and checked for exact pointers, next-offsets, terminator, padding, block count, header/parameter agreement, data length, upper-case names, lock flags and content == memory; distinct = distinct (parameter-section residue mod 512, block count) pairs per workload kind",
                   samples=samples, files_checked_by_kind=dict(checked), residues_mod_512_seen={"fresh": len(residues[0]), "loaded": len(residues[1]), "fresh_without_data_section": len(residues[3])},
                   parameter_block_counts_seen=dict(blocks), exhaustive=exhaustive,
                   exhaustive_scope="the 512 residues of the parameter-section length modulo 512 (fresh and loaded objects); histories are sampled",
                   skipped_histories=sum(1 for k, (saved, fl) in flags.items() if fl.get("offSpec") == "1" or fl.get("managedEdited") == "1"))
        inconc = None
        if not exhaustive:
            inconc = "residue sweep incomplete: %d/%d residues" % (len(residues[0]), len(residues[1]))
        if sum(checked.values()) < 0.7 * (nh + 3 * nres):
            inconc = "too few files checked (%d)" % sum(checked.values())

        def rinfo(v):
            w = v.get("workload", {})
            return dict(mode="hist" if w.get("profile") in ("api", "api_refusals", "load_then_edit", "gaps") else "residue", flavour="asan", args=w.get("args", []))
        return C.finish("C03", tier, "exploration", cov, viols, t0, replay_info=rinfo,
                        assumptions=["the reference decoder implements the C3D specification (self-tested, agrees with the vendor files)"], inconclusive=inconc)
    finally:
        C.cleanup(wd)


def _c04_cross(a):
    """file 2 (written by generation 1) must decode to what generation 2 then shows, and generation 2 must still expose what the
    independent decoder extracts from the ORIGINAL file (so a loss that already happens in the first load cannot hide)"""
    i, f2, snap2, orig = a
    try:
        if not (os.path.exists(f2) and os.path.exists(snap2)):
            return i, None
        S = compare.norm_snapshot(json.load(open(snap2)))
        try:
            D = c3dref.decode(open(f2, "rb").read())
        except c3dref.FormatError as e:
            return i, [("saved_file_undecodable", "the file written by generation 1 cannot be decoded: %s" % e)]
        out = compare.loaded_vs_ref(S, D)
        D0 = c3dref.decode(open(orig, "rb").read())
        for g in D0["groups"].values():
            g["name"] = g["name"].upper()                   # saving stores names upper-case (documented)
        for p in D0["params"]:
            p["name"] = p["name"].upper()
        if len(D0["frames"]) == D0["nframes_header"]:      # (the truncated vendor file cannot be compared on data)
            for k, d in compare.loaded_vs_ref(S, D0):
                if "DATA_START" in d:
                    continue                                 # the pointer is rewritten by save
                out.append(("vs_original/" + k, d))
        return i, out
    except Exception as e:
        return i, [("HARNESS", "%s: %s" % (type(e).__name__, e))]


def run_c04(tier, t0):
    n = 320 if tier == "quick" else 20000
    gens = 2 if tier == "quick" else 4
    exe = build.build_flavour("asan")
    selftest_codec()
    wd = C.workdir("C04", tier)
    try:
        paths, metas, lst = make_corpus(os.path.join(wd, "corpus"), n, first=100000)
        out = os.path.join(wd, "out")
        C.run_driver(exe, "gens", len(paths), out, args=["--list", lst, "--gens", str(gens)])
        R = C.parse_out(out)
        res = results_by_case(R)
        viols = list(R.viol)
        okc = 0
        shapes = set()
        variants = collections.Counter()
        for i, p in enumerate(paths):
            m = metas[i]
            for v in m["variants"] or ["plain"]:
                variants[v] += 1
            line = res.get(i, "")
            if " ok " in line:
                okc += 1
                shapes.add(json.dumps(m.get("shape", {}), sort_keys=True) + json.dumps(m.get("layout", {}), sort_keys=True, default=str))
            elif "load_threw" in line:
                viols.append(dict(prop="C04", key="well_formed_file_refused/" + line.split("load_threw ")[1].split(" ")[0], detail="%s: %s" % (os.path.basename(p), line), case=i, files=[p]))
        for v in viols:
            if "case" in v and v["case"] is not None and v["case"] < len(paths):
                v.setdefault("files", [paths[v["case"]]])
                v["detail"] = "%s variants=%s: %s" % (os.path.basename(paths[v["case"]]), metas[v["case"]]["variants"], v["detail"])
        with Pool(C.NCPU) as pool:
            cr = pool.map(_c04_cross, [(i, os.path.join(out, "gen2_%d.c3d" % i), os.path.join(out, "gen2_%d.json" % i), paths[i]) for i in range(len(paths))], chunksize=8)
        crossed = 0
        for i, diffs in cr:
            if diffs is None:
                continue
            crossed += 1
            for key, detail in diffs:
                if key == "HARNESS":
                    raise C.Harness("cross-check failed on case %d: %s" % (i, detail))
                viols.append(dict(prop="C04", key="file2_vs_generation2/" + key, detail="%s: %s" % (os.path.basename(paths[i]), detail), case=i, files=[paths[i]]))
        samples = [dict(file=os.path.basename(paths[i]), variants=metas[i]["variants"], shape=metas[i].get("shape"), result=res.get(i, "")[:100]) for i in (0, 1, 2, len(paths) - 1)]
        cov = dict(evaluations=len(paths), distinct_nontrivial=len(shapes), rule="one well-formed input per case (encoder corpus + 3 vendor files); each is loaded, saved, reloaded (%d generations); generation 1 vs later generations compared on content, successive saved files compared byte for byte; distinct = distinct (shape, layout) descriptors of inputs that completed all generations" % gens,
                   samples=samples, completed_all_generations=okc, generations=gens, file2_decoded_and_compared_with_generation2=crossed, same_shape_decoy_loaded_first_in_the_process=R.cnt.get("decoy_loaded_first", 0), repeated_save_onto_longer_existing_file=len(paths) // 2, layout_variant_counts=dict(variants), child_end_status=dict(R.status))
        inconc = None if okc >= 0.9 * len(paths) else "only %d of %d inputs completed" % (okc, len(paths))
        return C.finish("C04", tier, "exploration", cov, viols, t0, replay_info=lambda v: dict(mode="gens", flavour="asan", args=["--gens", str(gens)]),
                        assumptions=["inputs are well-formed by construction (reference encoder) or vendor files of the repository"], inconclusive=inconc)
    finally:
        C.cleanup(wd)


def _c12_one(a):
    i, path, snap, resave = a
    try:
        b = open(path, "rb").read()
        D = c3dref.decode(b)
        out = []
        if not os.path.exists(snap):
            return i, None
        S = compare.norm_snapshot(json.load(open(snap)))
        out += [("load/" + k, d) for k, d in compare.loaded_vs_ref(S, D, max_out=6)]
        # key-label words are header words too
        H, h = S["h"], D["hdr"]
        for lk, rk in (("klp", "klp"), ("fbk", "fbk"), ("fcp", "fcp")):
            if H[lk] != h[rk]:
                out.append(("load/header/" + lk, "library %d file %d" % (H[lk], h[rk])))
        D2 = None
        if os.path.exists(resave):
            try:
                D2 = c3dref.decode(open(resave, "rb").read())
            except (c3dref.FormatError, struct.error, IndexError) as e:
                out.append(("resave/undecodable", "the re-saved file cannot be decoded: %s" % e))
        if D2 is not None:
            h2 = D2["hdr"]
            for k in ("npts", "nmeas", "first", "last", "gap", "sub", "rate_bits", "klp", "fbk", "fcp", "nev", "etimes", "edisp_words", "elab"):
                if h[k] != h2[k]:
                    out.append(("resave/header/" + k, "original %r re-saved %r" % (h[k] if not isinstance(h[k], list) else h[k][:4], h2[k] if not isinstance(h2[k], list) else h2[k][:4])))
            p1 = {(D["groups"][p["gid"]]["name"], p["name"]): p for p in D["params"] if p["gid"] in D["groups"]}
            p2 = {(D2["groups"][p["gid"]]["name"], p["name"]): p for p in D2["params"] if p["gid"] in D2["groups"]}
            for k, p in p1.items():
                if k == (b"POINT", b"DATA_START") or p["type"] == -1:
                    continue
                q = p2.get(k)
                if q is None:
                    out.append(("resave/param_missing", repr(k)))
                elif q["raw"] != p["raw"] or q["type"] != p["type"]:
                    j = next((x for x in range(min(len(q["raw"]), len(p["raw"]))) if q["raw"][x] != p["raw"][x]), -1)
                    out.append(("resave/param_bytes/" + {1: "byte", 2: "int", 4: "float"}[p["type"]], "%r: bytes differ at %d (%s vs %s)" % (k, j, p["raw"][j:j + 4].hex(), q["raw"][j:j + 4].hex())))
            if [list(map(tuple, f[0])) for f in D["frames"]] != [list(map(tuple, f[0])) for f in D2["frames"]]:
                out.append(("resave/point_floats", "point data words differ"))
            if [[list(s) for s in f[1]] for f in D["frames"]] != [[list(s) for s in f[1]] for f in D2["frames"]]:
                out.append(("resave/analog_floats", "analog data words differ"))
        elif not os.path.exists(resave):
            out.append(("resave/missing", "no re-saved file"))
        return i, out
    except Exception as e:
        import traceback
        return i, [("HARNESS", "%s: %s %s" % (type(e).__name__, e, traceback.format_exc()[-400:]))]


def c12_api_expected(idx):
    if idx < 4:
        return struct.pack("<16384h", *range(-32768 + idx * 16384, -32768 + (idx + 1) * 16384))
    pats = [(s << 31) | (e << 23) | m for s in (0, 1) for e in range(256) for m in (0, 1, 1 << 22, (1 << 23) - 1)]
    return struct.pack("<%dI" % len(pats), *pats)


def run_c12_on(exe, wd, tag, viols, stats):
    import gen12
    cs = gen12.cases(C.seed())
    cdir = os.path.join(wd, "corpus")
    os.makedirs(cdir, exist_ok=True)
    paths = []
    for name, content, L, what in cs:
        p = os.path.join(cdir, name + ".c3d")
        if not os.path.exists(p):
            open(p, "wb").write(c3dref.encode(content, L))
        paths.append(p)
    lst = os.path.join(cdir, "list.txt")
    open(lst, "w").write("\n".join(paths) + "\n")
    out = os.path.join(wd, "out_" + tag)
    C.run_driver(exe, "loaddump", len(paths), out, args=["--list", lst, "--resave", "1"], chunk=4)
    R = C.parse_out(out)
    viols += R.viol
    res = results_by_case(R)
    with Pool(C.NCPU) as pool:
        cr = pool.map(_c12_one, [(i, paths[i], os.path.join(out, "snap_%d.json" % i), os.path.join(out, "resave_%d.c3d" % i)) for i in range(len(paths))], chunksize=2)
    for i, diffs in cr:
        if diffs is None:
            line = res.get(i, "")
            viols.append(dict(prop="C12", key="pattern_file_refused/" + (line.split(" threw ")[1].split(" ")[0] if " threw " in line else "no_result"), detail="%s (%s): %s [%s]" % (cs[i][0], cs[i][3], line, tag), case=i, files=[paths[i]]))
            continue
        stats["files_compared"] += 1
        for key, detail in diffs:
            if key == "HARNESS":
                raise C.Harness("C12 oracle failed on %s: %s" % (cs[i][0], detail))
            viols.append(dict(prop="C12", key=key, detail="%s (%s) [%s]: %s" % (cs[i][0], cs[i][3], tag, detail), case=i, files=[paths[i]]))
    # API direction
    out = os.path.join(wd, "api_" + tag)
    C.run_driver(exe, "c12api", 5, out, chunk=1)
    R2 = C.parse_out(out)
    viols += R2.viol
    for case, line in R2.lines.get("RES", []):
        stats["api_values_checked"] += int(line.split("checked=")[1].split()[0])
    for k in range(5):
        f = os.path.join(out, "api_%d.c3d" % k)
        if not os.path.exists(f):
            viols.append(dict(prop="C12", key="api/no_file", detail="case %d" % k, case=k))
            continue
        D = c3dref.decode(open(f, "rb").read())
        p = [q for q in D["params"] if q["name"] in (b"INTS", b"FLOATS")]
        want = c12_api_expected(k)
        if not p or p[0]["raw"] != want:
            j = -1 if not p else next((x for x in range(min(len(want), len(p[0]["raw"]))) if want[x] != p[0]["raw"][x]), -1)
            viols.append(dict(prop="C12", key="api/bytes_written/" + ("int" if k < 4 else "float"), detail="case %d: bytes of the saved parameter differ from the little-endian encoding of the values handed to set() at byte %d [%s]" % (k, j, tag), case=k, files=[f]))
        if k == 4:
            words = []
            for f, fr in enumerate(D["frames"][:4]):
                for pt in fr[0]:
                    words += [pt[(k - f) % 4] for k in range(4)]          # frame f stores the patterns rotated by f components
            if struct.pack("<%dI" % len(words), *words) != want:
                viols.append(dict(prop="C12", key="api/bytes_written/point_floats", detail="point data words differ from the patterns handed over [%s]" % tag, case=k, files=[f]))
        stats["api_files_decoded"] += 1
    stats["ub"].update(R.ub)
    return cs, R


def run_c12(tier, t0):
    selftest_codec()
    wd = C.workdir("C12", tier)
    try:
        viols = []
        stats = collections.Counter()
        stats["ub"] = collections.Counter()
        exe = build.build_flavour("asan")
        cs, R = run_c12_on(exe, wd, "asan", viols, stats)
        configs = ["asan"]
        if tier == "thorough":
            for bt, kind in (("Debug", "shared"), ("Release", "static")):
                exe2 = build.build_cfg(bt, kind)
                run_c12_on(exe2, wd, "cfg-%s-%s" % (bt, kind), viols, stats)
                configs.append("cfg-%s-%s" % (bt, kind))
        ub = stats.pop("ub")
        kinds = collections.Counter(n.rsplit("_", 1)[0] for n, _, _, _ in cs)
        cov = dict(evaluations=len(cs) * len(configs) + 5 * len(configs), distinct_nontrivial=len(cs) + 5,
                   rule="one reference-encoded file per pattern set: all 256 byte values, all 65536 int16 values (4 x 16384), boundary values of every header word, 3584 float patterns (both signs x 256 exponents x 7 mantissas), every one of them in x/y/z/residual AND in an analog sample AND in a float parameter, a rotating 18 of every 40 in event times; each is loaded (exact values required), re-saved and the re-saved bytes compared with the original bytes; plus the API direction (set() of every int16 value and 2048 float patterns -> bytes on disk -> load); distinct = distinct pattern files",
                   samples=[dict(file=n, what=w) for n, _, _, w in (cs[0], cs[1], cs[5], cs[40], cs[-1])],
                   pattern_files_by_kind=dict(kinds), build_configurations=configs, exhaustive=True,
                   exhaustive_scope="2^8 byte values and 2^16 integer values in parameters (file->memory->file and API->file->memory); header words and floats are boundary-dense, not exhaustive",
                   recoverable_ub_reports=dict(ub.most_common(6)), **{k: v for k, v in stats.items()})
        inconc = None if stats["files_compared"] >= len(cs) * len(configs) * 0.95 else "only %d files compared" % stats["files_compared"]
        return C.finish("C12", tier, "exploration", cov, viols, t0, replay_info=lambda v: dict(mode="loaddump", flavour="asan", args=["--resave", "1"]),
                        assumptions=["reference codec correct (self-tested)"], inconclusive=inconc)
    finally:
        C.cleanup(wd)
