"""History-based checks (C01, C05-C11): adaptive API histories in the asan flavour, online relational monitors in
the driver (driver/hist_*.cpp), verdicts aggregated here."""
import json
import os
import time

import build
import common as C

# per property: workloads = list of (profile, wild, share of cases, extra args); relevant ops; minimum observations
SPEC = {
    "C01": dict(workloads=[("c01", False, 0.6, ["--maxdesc", "255"]), ("mixed", False, 0.3, ["--maxdesc", "255"]),
                           ("c01", False, 0.1, ["--maxdesc", "255", "--maxpts", "120", "--maxch", "60", "--maxsub", "20", "--maxops", "16"])],   # larger shapes
                quick=480, thorough=30000, maxops=(36, 60),
                relevant=("save", "load"), need={"c01_roundtrips": 300},
                rule="distinct (operation,outcome) sequences of histories that ended in at least one judged save->load round trip"),
    "C05": dict(workloads=[("mixed", False, 0.75, []), ("mixed", False, 0.25, ["--start", "@CORPUS@", "--maxops", "18"])], quick=640, thorough=50000, maxops=(40, 60),
                relevant=("frame_", "declare_", "point_column", "channel_column", "set_", "add_param", "resubmit", "continue_on_loaded"),
                need={"c05_checked": 5000},
                rule="distinct (operation,outcome) sequences of disciplined histories with >= 1 shape-changing call; the three views are compared after every successful call"),
    "C06": dict(workloads=[("c06", False, 0.8, []), ("c06", False, 0.2, ["--start", "@CORPUS@", "--maxops", "16"])], quick=520, thorough=40000, maxops=(40, 60),
                relevant=("frame_", "resubmit", "point_column", "channel_column", "declare_"),
                need={"c06_frame_checked": 2000, "c06_column_checked": 200},
                rule="distinct sequences containing >= 1 accepted frame or column call whose before/after snapshots were related"),
    "C07": dict(workloads=[("c07", False, 0.85, []), ("c07", False, 0.15, ["--start", "@CORPUS@", "--maxops", "14"])],   # loaded objects: labels fewer/more than the points in use
                quick=640, thorough=60000, maxops=(40, 60),
                relevant=("frame_", "resubmit", "point_column", "channel_column", "declare_"),
                need={"c07_frame_defective": 400, "c07_frame_valid": 1000, "c07_column_calls": 800},
                rule="distinct sequences containing >= 1 frame/column call judged against the documented precondition predicate"),
    "C08": dict(workloads=[("c08", False, 1.0, [])], quick=480, thorough=30000, maxops=(40, 60),
                relevant=("mutate_caller_frame", "resubmit", "copy_out"),
                need={"c08_mutations": 500, "op:resubmit_append": 300},
                rule="distinct sequences in which a caller-side frame was mutated after hand-over or handed over more than once"),
    "C09": dict(workloads=[("c09", False, 1.0, ["--maxdesc", "255"])], quick=420, thorough=40000, maxops=(44, 70),
                relevant=("add_param", "param_set_dims", "lock_group", "unlock_group", "set_"),
                need={"c09_param_checked": 2000, "c09_set_inconsistent": 300, "c09_set_consistent": 300, "c09_lock_checked": 500},
                rule="distinct sequences containing >= 1 parameter/group edit judged by the tree-diff or set() predicate monitors"),
    "C10": dict(workloads=[("c10", False, 0.5, []), ("c10", True, 0.38, []), ("c10", False, 0.12, ["--start", "@CORPUS@", "--maxops", "14"])],   # (third workload: loaded objects -- first frame > 1, sparse ids, fewer labels)
                quick=560, thorough=40000, maxops=(40, 60),
                relevant=("throw:",), need={"refused": 200},
                rule="distinct sequences containing >= 1 refused public mutating call (snapshot equality judged around it)"),
    "C11": dict(workloads=[("c11", False, 0.8, ["--lookups", "14"]), ("c11", False, 0.2, ["--lookups", "14", "--start", "@CORPUS@", "--maxops", "12"])], quick=420, thorough=40000, maxops=(40, 60),
                relevant=("lookups", "declare_"), need={"c11_accesses": 20000},
                rule="distinct sequences containing >= 1 batch of look-ups (each batch = 14 accesses over all container kinds) compared with the snapshot"),
}


def run_workloads(prop, tier, exe, wd, spec):
    n = spec[tier]
    maxops = spec["maxops"][0 if tier == "quick" else 1]
    results = []
    first = 0
    for wi, (profile, wild, share, extra) in enumerate(spec["workloads"]):
        cnt = max(1, int(n * share))
        if "@CORPUS@" in extra:
            # load-then-edit: start from well-formed files of the reference encoder (half of them with a first frame other than 1)
            import checks_files as F
            F.selftest_codec()
            p1, m1, l1 = F.make_corpus(os.path.join(wd, "corpus_a"), 40, first=700000, vendor=False)
            p2, m2, l2 = F.make_corpus(os.path.join(wd, "corpus_b"), 40, first=710000, vendor=False, force=["first_frame"])
            lst = os.path.join(wd, "start.txt")
            open(lst, "w").write("\n".join(p1 + p2) + "\n")
            extra = [lst if x == "@CORPUS@" else x for x in extra]
        out = os.path.join(wd, "w%d" % wi)
        args = ["--profile", profile] + ([] if "--maxops" in extra else ["--maxops", str(maxops)]) + (["--wild"] if wild else []) + list(extra)
        C.run_driver(exe, "hist", cnt, out, args=args, first=first)
        R = C.parse_out(out)
        R.workload = dict(profile=profile, wild=wild, args=args, first=first, count=cnt)
        for v in R.viol:
            v["workload"] = R.workload
        results.append(R)
        first += cnt
    return results


def merge_counts(results):
    import collections
    cnt = collections.Counter()
    ev = collections.Counter()
    status = collections.Counter()
    ub = collections.Counter()
    shapes = collections.Counter()
    for R in results:
        cnt.update(R.cnt); ev.update(R.events); status.update(R.status); ub.update(R.ub); shapes.update(R.shapes)
    return cnt, ev, status, ub, shapes


def nontrivial(results, relevant):
    sigs = set()
    for R in results:
        for case, ops in R.case_ops.items():
            if any(any(r in o for r in relevant) for o in ops):
                sigs.add(hash(tuple(ops)))
    return len(sigs)


def coverage_of(prop, results, spec, extra=None):
    cnt, ev, status, ub, shapes = merge_counts(results)
    cases = sum(R.cases for R in results)
    cov = dict(
        evaluations=cases,
        distinct_nontrivial=nontrivial(results, spec["relevant"]),
        rule=spec["rule"],
        samples=[s for R in results for s in R.samples][:3],
        events_total=sum(ev.values()),
        events_by_operation_and_outcome={"%s -> %s" % k: v for k, v in ev.most_common(60)},
        monitor_counters={k: v for k, v in sorted(cnt.items()) if not k.startswith("op:")},
        child_end_status=dict(status),
        distinct_final_shapes=len(shapes),
        recoverable_ub_reports=dict(ub.most_common(8)),
        workloads=[R.workload for R in results],
    )
    if extra:
        cov.update(extra)
    return cov, cnt


def replay_info(v):
    w = v.get("workload", {})
    return dict(mode=w.get("mode", "hist"), flavour="asan", args=w.get("args", []), note="re-run with: ./check <id> --replay <this file>")


def run(prop, tier):
    t0 = time.time()
    spec = SPEC[prop]
    exe = build.build_flavour("asan")
    wd = C.workdir(prop, tier)
    try:
        results = run_workloads(prop, tier, exe, wd, spec)
        if prop == "C01":
            # the save/load round trip is also driven through every residue of the parameter-section length modulo 512
            out = os.path.join(wd, "residue")
            nres = 520 if tier == "quick" else 1560
            C.run_driver(exe, "residue", nres, out, args=["--variant", "2"])
            RR = C.parse_out(out)
            RR.workload = dict(profile="residue", wild=False, args=["--variant", "2"], first=0, count=nres, mode="residue")
            for v in RR.viol:
                v["workload"] = RR.workload
            RR.cnt["c01_roundtrips"] += sum(1 for c, l in RR.lines.get("RES", []) if " ok" in l)
            results.append(RR)
        viols = [v for R in results for v in R.viol]
        if prop == "C08":
            # "adding one point or channel adds it exactly once to every frame": a refused column call that leaves the column in some frames breaks it too
            import re as _re
            for v in list(viols):
                if v["prop"] == "C10" and _re.match(r"changed_after_refusal/(channel_column|point_column|declare_point|declare_channel)/.*/frame", v["key"]):
                    viols.append(dict(v, prop="C08", key="column/partly_added_by_refused_call/" + v["key"].split("/")[1]))
                # ... and a VALID column call that is refused adds the column to no frame at all
                if v["prop"] == "C07" and _re.match(r"column/valid_refused/(channel_column|point_column|declare_point|declare_channel)/", v["key"]):
                    viols.append(dict(v, prop="C08", key="column/not_added_valid_call_refused/" + v["key"].split("/")[2]))
        cov, cnt = coverage_of(prop, results, spec)
        inconclusive = None
        scale = 1 if tier == "quick" else 4
        for k, need in spec["need"].items():
            if cnt.get(k, 0) < need * (1 if tier == "quick" else scale):
                inconclusive = "monitor observed too little: %s=%d < %d" % (k, cnt.get(k, 0), need * scale)
        if prop == "C10":
            kinds = [k for k in cnt if k.startswith("refused:")]
            cov["distinct_refusal_kinds"] = len(kinds)
            if len(kinds) < 8:
                inconclusive = "fewer than 8 distinct kinds of refused calls (%d)" % len(kinds)
        wd_cases = [c for R in results for c in R.watchdog]
        if wd_cases:
            inconclusive = "watchdog fired on cases %s" % wd_cases[:5]
        if any(R.harness for R in results):
            raise C.Harness("driver harness exception in cases %s" % [c for R in results for c in R.harness][:5])
        return C.finish(prop, tier, "exploration", cov, viols, t0, replay_info=replay_info,
                        assumptions=["monitors read the object only through const public accessors",
                                     "sanitizer flavour: ASan+UBSan+_GLIBCXX_ASSERTIONS; a crash/report in any case is a violation of this property too"],
                        inconclusive=inconclusive)
    finally:
        C.cleanup(wd)


def replay(prop, path):
    info = json.load(open(path))
    exe = build.build_flavour(info.get("flavour", "asan"))
    wd = C.workdir(prop, "replay")
    os.environ["VERIF_SEED"] = str(info.get("seed", 1))
    try:
        C.run_driver(exe, info.get("mode", "hist"), 1, wd, args=list(info.get("args", [])) + ["--verbose"], first=int(info["case"]), workers=1)
        R = C.parse_out(wd)
        log = os.path.join(wd, "case_%d.log" % int(info["case"]))
        if os.path.exists(log):
            print(open(log, errors="replace").read()[-6000:])
        hits = [v for v in R.viol if v["prop"] in (prop, "*")]
        for v in hits:
            print("REPLAYED VIOL %s %s | %s" % (v["prop"], v["key"], v["detail"][:400]))
        if any(v["key"] == info.get("key") for v in hits):
            print("VIOLATION property=%s replay=%s" % (prop, path))
            return 1
        print("replay did not reproduce key %s (%d other violations)" % (info.get("key"), len(hits)))
        return 1 if hits else 0
    finally:
        C.cleanup(wd)
