"""Shared machinery of the checks: running the driver in parallel, parsing case logs and sanitizer
output, known-finding classification, evidence writing."""
import collections
import glob
import json
import os
import re
import shutil
import subprocess
import sys
import time
from concurrent.futures import ThreadPoolExecutor

VERIF = os.path.dirname(os.path.dirname(os.path.abspath(__file__)))
WORK = os.path.join(VERIF, "work")
# calibration runs against scratch trees (tools/calib.py) set VERIF_OUT so that they never overwrite the evidence of the real tree
_OUT = os.environ.get("VERIF_OUT") or VERIF
REPLAYS = os.path.join(_OUT, "replays")
EVIDENCE = os.path.join(_OUT, "evidence")
NCPU = min(16, os.cpu_count() or 4)

SAN_ENV = {
    "ASAN_OPTIONS": "detect_leaks=0:abort_on_error=0:exitcode=86:malloc_fill_byte=190:allocator_may_return_null=1:max_allocation_size_mb=2048:handle_abort=1",
    "UBSAN_OPTIONS": "print_stacktrace=0:exitcode=87",
    "TSAN_OPTIONS": "halt_on_error=0:second_deadlock_stack=1:exitcode=0",
}


def seed():
    try:
        return int(os.environ.get("VERIF_SEED", "1"))
    except ValueError:
        return 1


def workdir(prop, tier):
    d = os.path.join(WORK, "%s_%s_%d" % (prop, tier, os.getpid()))
    shutil.rmtree(d, ignore_errors=True)
    os.makedirs(d)
    return d


class Harness(Exception):
    """Harness failure: exit 2, never a verdict."""


def run_driver(exe, mode, ncases, outdir, args=(), env_extra=None, workers=NCPU, first=0, chunk=None, timeout=None, rerun_watchdogs=True):
    """Run cases [first, first+ncases) of a driver mode across `workers` processes."""
    os.makedirs(outdir, exist_ok=True)
    if chunk is None:
        chunk = max(1, min(200, (ncases + workers * 3 - 1) // (workers * 3)))
    ranges = [(a, min(a + chunk, first + ncases)) for a in range(first, first + ncases, chunk)]
    env = dict(os.environ)
    env.update(SAN_ENV)
    if env_extra:
        env.update(env_extra)

    def one(r):
        cmd = [exe, mode, "--out", outdir, "--seed", str(seed()), "--from", str(r[0]), "--to", str(r[1])] + list(args)
        p = subprocess.run(cmd, env=env, stdout=subprocess.PIPE, stderr=subprocess.STDOUT, text=True, timeout=timeout)
        return r, p.returncode, p.stdout
    with ThreadPoolExecutor(workers) as ex:
        res = list(ex.map(one, ranges))
    for r, rc, out in res:
        if rc != 0:
            raise Harness("driver %s cases %s exited %d: %s" % (mode, r, rc, out[-2000:]))
    if rerun_watchdogs:
        _rerun_watchdogs(exe, mode, outdir, list(args), env, ranges)
    return ranges


_RERUN_BUDGET = [8]     # re-runs left in this check process (a tree on which everything hangs must not cost 8 x 4 x time-out per workload)


def _rerun_watchdogs(exe, mode, outdir, args, env, ranges, limit=6):
    """A case that hit the wall-clock backstop is run once more, alone on the machine's idle cores and with 4x the time.
    If it finishes, its verdict replaces the time-out (the first one was load).  If it times out again it is reported as a
    hang of the call named by its last PRE line: a violation key like any other (routed through known-findings matching)."""
    base = 40
    if "--timeout" in args:
        i = args.index("--timeout")
        base = int(args[i + 1])
        args = args[:i] + args[i + 2:]
    done = 0
    for r in ranges:
        ip = os.path.join(outdir, "index_%d.tsv" % r[0])
        if not os.path.exists(ip):
            continue
        lines = open(ip).read().splitlines()
        changed = False
        for li, line in enumerate(lines):
            parts = line.split("\t")
            if len(parts) < 2 or parts[1] not in ("watchdog", "skipped_after_watchdogs") or done >= limit or _RERUN_BUDGET[0] <= 0:
                continue
            case = int(parts[0])
            done += 1
            _RERUN_BUDGET[0] -= 1
            for suf in ("log", "err"):
                src = os.path.join(outdir, "case_%d.%s" % (case, suf))
                if os.path.exists(src):
                    os.replace(src, src + ".first_attempt")
            cmd = [exe, mode, "--out", outdir, "--seed", str(seed()), "--from", str(case), "--to", str(case + 1), "--timeout", str(base * 4)] + args
            p = subprocess.run(cmd, env=env, stdout=subprocess.PIPE, stderr=subprocess.STDOUT, text=True)
            if p.returncode != 0:
                raise Harness("driver %s re-run of case %d exited %d: %s" % (mode, case, p.returncode, p.stdout[-2000:]))
            one = open(os.path.join(outdir, "index_%d.tsv" % case)).read().splitlines()[0].split("\t")
            if case != r[0]:
                os.unlink(os.path.join(outdir, "index_%d.tsv" % case))
            if one[1] == "watchdog":
                one[1] = "hang:%ds_alone_after_%ds" % (base * 4, base if parts[1] == "watchdog" else 0)
            print("note: case %d of %s hit the %d s backstop; alone with %d s it ended with status %s" % (case, os.path.basename(outdir), base, base * 4, one[1]))
            lines[li] = "\t".join(one)
            changed = True
        if changed:
            open(ip, "w").write("\n".join(lines) + "\n")


SIG_RE = re.compile(r"ERROR: AddressSanitizer: ([A-Za-z0-9_-]+(?: [a-z-]+)*?)(?: on | \(|:|$)")
FRAME_RE = re.compile(r"#\d+ 0x[0-9a-f]+ in (ezc3d::[A-Za-z0-9_:~]+)")
ANYFRAME_RE = re.compile(r"#\d+ 0x[0-9a-f]+ in ([A-Za-z_][A-Za-z0-9_:~<>]*)")
UB_RE = re.compile(r"([^\s:]+):(\d+):\d+: runtime error: (.*)")
ASSERT_RE = re.compile(r"([A-Za-z0-9_./+-]+):\d+: (.*?): Assertion '(.*?)' failed")


def crash_signature(errtext, status):
    """Diagnose an abnormal child end from its stderr: kind @ first ezc3d:: frame."""
    big = re.search(r"ERROR: AddressSanitizer: (allocator is out of memory|requested allocation size|allocation-size-too-big|out of memory)", errtext)
    if big:
        f = FRAME_RE.search(errtext[big.start():])
        return "asan:allocation_too_big@%s" % (f.group(1) if f else "?")
    m = SIG_RE.search(errtext)
    if m and m.group(1).strip() == "ABRT" and ASSERT_RE.search(errtext):
        m = None      # a libstdc++ assertion: the assertion text is the better diagnosis
    if m:
        kind = "asan:" + m.group(1).strip().replace(" ", "_")
        seg = errtext[m.start():]
        f = FRAME_RE.search(seg)
        return "%s@%s" % (kind, f.group(1) if f else "?")
    m = ASSERT_RE.search(errtext)
    if m:
        fn = re.sub(r"\[with.*", "", m.group(2))
        fn = re.sub(r"\(.*", "", fn).split()[-1] if fn else "?"
        return "assert:%s@%s" % (m.group(3).replace(" ", ""), fn)
    if status == "exit:87" or (status.startswith("signal") and "runtime error" in errtext):
        ub = UB_RE.findall(errtext)
        if ub:
            f, line, msg = ub[-1]
            msg = re.sub(r"0x[0-9a-f]+", "ADDR", msg)
            msg = re.sub(r"-?\d+(\.\d+)?(e[+-]?\d+)?", "N", msg)
            return "ubsan:%s@%s" % (msg[:60].replace(" ", "_"), os.path.basename(f))
    if "terminate called" in errtext:
        return "terminate@" + status
    return "abnormal:" + status


def ub_reports(errtext):
    out = collections.Counter()
    for f, line, msg in UB_RE.findall(errtext):
        msg = re.sub(r"-?\d+(\.\d+)?(e[+-]?\d+)?", "N", re.sub(r"0x[0-9a-f]+", "ADDR", msg))
        out["%s:%s %s" % (os.path.basename(f), line, msg[:70])] += 1
    return out


WATCHDOGS = []      # (outdir, case) of every child that hit the wall-clock backstop in this check run: never a verdict, always inconclusive


class Results:
    def __init__(self):
        self.cases = 0
        self.status = collections.Counter()
        self.events = collections.Counter()          # (op, outcome)
        self.viol = []                                # dicts: prop,key,detail,case,log
        self.cnt = collections.Counter()
        self.shapes = collections.Counter()
        self.obs = collections.defaultdict(collections.Counter)
        self.ub = collections.Counter()
        self.samples = []
        self.budget = []
        self.histsig = set()
        self.watchdog = []
        self.harness = []
        self.lines = collections.defaultdict(list)    # other tagged lines, by tag
        self.case_ops = {}                            # case -> list of 'op->outcome'


def parse_out(outdir, prop_for_crash=None, want_tags=("RES", "FINAL", "BUDGET")):
    R = Results()
    for idx in sorted(glob.glob(os.path.join(outdir, "index_*.tsv"))):
        for line in open(idx):
            parts = line.rstrip("\n").split("\t")
            if len(parts) < 2:
                continue
            case, status = int(parts[0]), parts[1]
            R.cases += 1
            R.status[status] += 1
            logp = os.path.join(outdir, "case_%d.log" % case)
            errp = os.path.join(outdir, "case_%d.err" % case)
            errtext = ""
            if os.path.exists(errp):
                with open(errp, errors="replace") as f:
                    errtext = f.read(400000)
                R.ub.update(ub_reports(errtext))
            ops = []
            last_pre = "start"
            hostile = False
            try:
                with open(logp, errors="replace") as f:
                    for l in f:
                        if l.startswith("EV "):
                            m = re.match(r"EV \d+ (\S+) (.*) -> (\S+)", l)
                            if m:
                                R.events[(m.group(1), m.group(3))] += 1
                                ops.append(m.group(1) + "->" + m.group(3))
                        elif l.startswith("PRE "):
                            pp = l.split()
                            last_pre = pp[1] if len(pp) > 1 else "?"
                            if last_pre == "wild_managed_edit":
                                hostile = True
                        elif l.startswith("VIOL "):
                            m = re.match(r"VIOL (\S+) (\S+) \| (.*)", l.rstrip("\n"))
                            if m:
                                R.viol.append(dict(prop=m.group(1), key=m.group(2), detail=m.group(3), case=case, log=logp))
                        elif l.startswith("CNT "):
                            _, k, v = l.split()
                            R.cnt[k] += int(v)
                        elif l.startswith("OBS "):
                            p = l.rstrip("\n").split(" ", 2)
                            if len(p) == 3:
                                R.obs[p[1]][p[2]] += 1
                                if p[1] == "shape":
                                    R.shapes[p[2]] += 1
                        else:
                            tag = l.split(" ", 1)[0]
                            if tag in want_tags:
                                R.lines[tag].append((case, l.rstrip("\n")))
            except FileNotFoundError:
                pass
            R.histsig.add(hash(tuple(ops)))
            R.case_ops[case] = ops
            if status == "ok":
                pass
            elif status in ("watchdog", "skipped_after_watchdogs"):
                R.watchdog.append(case)
                WATCHDOGS.append((os.path.basename(outdir), case))
            elif status.startswith("hang:"):
                # timed out twice, the second time alone with 4x the time: the call named by the last PRE line does not return
                R.viol.append(dict(prop="*", key="hang/no_return|during=" + last_pre, detail="the case hit the wall-clock backstop twice (%s); last operation started: %s" % (status, last_pre), case=case, log=logp))
            elif status == "harness":
                # a library call the workload makes unconditionally (valid use by construction) threw: on the unchanged tree this never
                # happens, so it is reported as a violation of the running property rather than hidden as a harness problem
                msg = ""
                try:
                    with open(logp, errors="replace") as f:
                        for l in f:
                            if l.startswith("END harness_exception"):
                                msg = l[len("END harness_exception"):].strip()
                except FileNotFoundError:
                    pass
                kmsg = re.sub(r"[^A-Za-z ]+", " ", msg).split()[:6]
                R.viol.append(dict(prop="*", key="unexpected_exception_in_valid_use/%s|during=%s" % ("_".join(kmsg), last_pre), detail="the workload's own (valid) library call threw: %s" % msg, case=case, log=logp))
            elif status == "budget":
                b = [l for c, l in R.lines["BUDGET"] if c == case]
                R.budget.append((case, b[-1] if b else "BUDGET ?"))
            else:
                sig = crash_signature(errtext, status)
                sig += "|during=" + last_pre + ("|after_hostile_managed_edit" if hostile else "")
                R.viol.append(dict(prop="*", key="crash/" + sig, detail="child ended with %s; stderr tail: %s" % (status, errtext[-600:].replace("\n", " | ")), case=case, log=logp))
            if len(R.samples) < 3 and ops:
                try:
                    with open(logp, errors="replace") as f:
                        R.samples.append([l.rstrip("\n")[:200] for l in f if l.startswith("EV ")][:14])
                except FileNotFoundError:
                    pass
    return R


# ---------------------------------------------------------------- known findings
def load_known():
    p = os.path.join(VERIF, "known_findings.json")
    if not os.path.exists(p):
        return {"known": [], "fixed": []}
    return json.load(open(p))


def classify(prop, viols):
    """Split violations of one property into known (listed key patterns) and new."""
    kf = [k for k in load_known().get("known", []) if k["property"] == prop]
    known, new = collections.OrderedDict(), []
    for v in viols:
        hit = None
        for k in kf:
            if re.search(k["key_regex"], v["key"]):
                hit = k
                break
        if hit:
            known.setdefault(hit["id"], dict(entry=hit, count=0, example=v))["count"] += 1
        else:
            new.append(v)
    return known, new


def finish(prop, tier, level, coverage, viols, t0, replay_info=None, assumptions=(), inconclusive=None, extra_known_lines=()):
    """Print verdict lines, write evidence, return exit code."""
    os.makedirs(EVIDENCE, exist_ok=True)
    mine = [v for v in viols if v["prop"] in (prop, "*")]
    known, new = classify(prop, mine)
    for kid, k in known.items():
        print("KNOWN-FINDING: property=%s %s [%s] (%d occurrences this run)" % (prop, k["entry"]["what"], kid, k["count"]))
    for l in extra_known_lines:
        print(l)
    rc = 0
    newkeys = collections.OrderedDict()
    for v in new:
        newkeys.setdefault(v["key"], []).append(v)
    if newkeys:
        rc = 1
        rdir = os.path.join(REPLAYS, prop)
        shutil.rmtree(rdir, ignore_errors=True)
        os.makedirs(rdir, exist_ok=True)
        for i, (key, vs) in enumerate(newkeys.items()):
            v = vs[0]
            rp = os.path.join(rdir, "viol_%d.json" % i)
            info = dict(property=prop, key=key, detail=v["detail"], case=v.get("case"), occurrences=len(vs), seed=seed(), tier=tier)
            if replay_info:
                info.update(replay_info(v) if callable(replay_info) else replay_info)
            if v.get("log") and os.path.exists(v["log"]):
                try:
                    shutil.copy(v["log"], os.path.join(rdir, "viol_%d.log" % i))
                    info["log"] = os.path.join(rdir, "viol_%d.log" % i)
                except OSError:
                    pass
            for extra in v.get("files", []):
                if os.path.exists(extra):
                    dst = os.path.join(rdir, "viol_%d_%s" % (i, os.path.basename(extra)))
                    shutil.copy(extra, dst)
                    info.setdefault("files", []).append(dst)
            json.dump(info, open(rp, "w"), indent=1)
            print("VIOLATION property=%s replay=%s" % (prop, rp))
            print("  key=%s occurrences=%d detail=%s" % (key, len(vs), v["detail"][:300]))
    if WATCHDOGS and not inconclusive:
        inconclusive = "the wall-clock watchdog ended %d case(s) (%s ...): no verdict for them; re-run, and look at the PRE line of the case log if it persists" % (len(WATCHDOGS), WATCHDOGS[:3])
    if inconclusive and rc == 0:
        print("INCONCLUSIVE property=%s %s" % (prop, inconclusive))
        rc = 2
    cov = dict(coverage)
    cov.setdefault("known_findings_met", {k: v["count"] for k, v in known.items()})
    ev = dict(property_id=prop, tier=tier, seed=seed(), level=level, coverage=cov, wall_s=round(time.time() - t0, 2),
              violations=len(newkeys), assumptions=list(assumptions))
    json.dump(ev, open(os.path.join(EVIDENCE, prop + ".json"), "w"), indent=1, sort_keys=True)
    print("%s %s: %s (evaluations=%s, distinct_nontrivial=%s, wall %.1fs)" % (
        prop, tier, "VIOLATED" if rc == 1 else "INCONCLUSIVE" if rc == 2 else "held on what was observed",
        cov.get("evaluations"), cov.get("distinct_nontrivial"), time.time() - t0))
    return rc


def events_table(R, top=40):
    return {"%s -> %s" % k: v for k, v in R.events.most_common(top)}


def cleanup(d):
    if os.environ.get("VERIF_KEEP"):
        print("kept work dir", d)
    else:
        shutil.rmtree(d, ignore_errors=True)
