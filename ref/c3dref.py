"""Independent reference implementation of the C3D file format (c3d.org specification, the user guide in
/repo/doc), Python standard library only.  NOT derived from ezc3d's sources.

decode(bytes)  -- pointer-following decoder: trusts only the file's own pointers and records every inexact
                  redundancy in `problems` (used by C03) while extracting the content (used by C02/C04/C12).
encode(content, layout) -- spec-level encoder with explicit layout knobs (used to build corpora).

Only little-endian (Intel, processor type 84) float-format files are produced; the decoder reports anything else.
"""
import struct

BLOCK = 512


class FormatError(Exception):
    pass


def _u16(b, o):
    return struct.unpack_from("<H", b, o)[0]


def _i8(b, o):
    return struct.unpack_from("<b", b, o)[0]


def decode(b, follow="header"):
    """Robust front end: whatever is wrong with the bytes, the caller gets a FormatError (never a struct.error / IndexError of this module)."""
    try:
        return _decode(b, follow)
    except FormatError:
        raise
    except (struct.error, IndexError, ValueError, KeyError, OverflowError, MemoryError) as e:
        raise FormatError("not decodable: %s: %s" % (type(e).__name__, e))


def _decode(b, follow="header"):
    """Decode a C3D byte string.  Returns a dict:
       hdr: header fields; nblocks, proc; groups {id: {...}}; params [ {...} ] in file order;
       frames: list of (points [(x,y,z,r) bit patterns], analogs [sub][channel] bit patterns)
       problems: list of (key, text) for every inexact redundancy / broken pointer
    """
    problems = []
    z = 0
    n = len(b)
    while z < n and b[z] == 0:
        z += 1
    if z >= n:
        raise FormatError("file is empty or all zero")
    if z + BLOCK > n:
        raise FormatError("truncated header")
    H = b[z:z + BLOCK]
    pa, key = H[0], H[1]
    if key != 0x50:
        raise FormatError("header key byte is %#x, not 0x50" % key)
    npts, nmeas, first, last, gap = struct.unpack_from("<HHHHH", H, 2)
    scale_bits, = struct.unpack_from("<I", H, 12)
    scale, = struct.unpack_from("<f", H, 12)
    ds, sub = struct.unpack_from("<HH", H, 16)
    rate_bits, = struct.unpack_from("<I", H, 20)
    klp, fbk, fcp, nev, res152 = struct.unpack_from("<HHHHH", H, 147 * 2)
    etimes = list(struct.unpack_from("<18I", H, 152 * 2))
    edisp_bytes = list(H[188 * 2:188 * 2 + 18])
    edisp_words = list(struct.unpack_from("<9H", H, 188 * 2))
    elab = [bytes(H[198 * 2 + 4 * i:198 * 2 + 4 * i + 4]) for i in range(18)]
    reserved_13_147 = bytes(H[24:294])
    reserved_235_256 = bytes(H[468:512])
    hdr = dict(zeros=z, param_block=pa, npts=npts, nmeas=nmeas, first=first, last=last, gap=gap, scale_bits=scale_bits,
               scale=scale, data_start=ds, sub=sub, rate_bits=rate_bits, klp=klp, fbk=fbk, fcp=fcp, nev=nev,
               etimes=etimes, edisp_words=edisp_words, edisp_bytes=edisp_bytes, elab=elab,
               reserved_13_147=reserved_13_147, reserved_235_256=reserved_235_256, word152=res152, word198=_u16(H, 197 * 2))
    if pa < 2:
        problems.append(("header/param_block", "parameter block address %d < 2" % pa))
    p0 = z + (pa - 1) * BLOCK
    if p0 + 4 > n:
        raise FormatError("parameter section beyond end of file")
    pro = (b[p0], b[p0 + 1])
    nblocks, proc = b[p0 + 2], b[p0 + 3]
    if proc != 84:
        problems.append(("params/processor", "processor type %d (only Intel=84 decoded)" % proc))
    pos = p0 + 4
    groups, params = {}, []
    terminated = None
    nrec = 0
    while True:
        if pos + 1 > n:
            problems.append(("params/chain", "record chain runs past the end of file"))
            break
        nlen = _i8(b, pos)
        if nlen == 0:
            terminated = "terminator"          # (a terminator may be the very last byte of the file)
            break
        if pos + 2 > n:
            problems.append(("params/chain", "record chain runs past the end of file"))
            break
        gid = _i8(b, pos + 1)
        nl = abs(nlen)
        name = bytes(b[pos + 2:pos + 2 + nl])
        q = pos + 2 + nl
        if q + 2 > n:
            problems.append(("params/chain", "record truncated"))
            break
        off = _u16(b, q)
        nxt = q + off if off else 0
        q += 2
        nrec += 1
        if gid < 0:
            dl = b[q]
            desc = bytes(b[q + 1:q + 1 + dl])
            q += 1 + dl
            if -gid in groups:
                problems.append(("params/duplicate_group_id", "group id %d defined twice" % -gid))
            groups[-gid] = dict(id=-gid, name=name, locked=nlen < 0, desc=desc, order=nrec, offset=pos - p0)
        elif gid > 0:
            t = _i8(b, q)
            nd = b[q + 1]
            dims = list(b[q + 2:q + 2 + nd])
            q += 2 + nd
            if t not in (-1, 1, 2, 4):
                problems.append(("params/type", "parameter %r has type %d" % (name, t)))
                raise FormatError("parameter %r has unknown type %d" % (name, t))
            if nd > 7:
                problems.append(("params/ndims", "parameter %r has %d dimensions" % (name, nd)))
            cnt = 1
            for d in dims:
                cnt *= d
            es = abs(t)
            raw = bytes(b[q:q + cnt * es])
            if len(raw) != cnt * es:
                problems.append(("params/data_truncated", "parameter %r data truncated" % name))
            q += cnt * es
            dl = b[q] if q < n else 0
            desc = bytes(b[q + 1:q + 1 + dl])
            q += 1 + dl
            params.append(dict(gid=gid, name=name, locked=nlen < 0, type=t, dims=dims, raw=raw, desc=desc, order=nrec, offset=pos - p0))
        else:
            problems.append(("params/group_id_zero", "record %r has group id 0" % name))
            break
        if off and nxt != q:
            problems.append(("params/next_offset", "record %r: next-offset says byte %d of the section, the record ends at %d" % (name, nxt - p0, q - p0)))
        if not off:
            terminated = "zero_pointer"
            pos = q
            break
        pos = nxt
    if terminated is None:
        problems.append(("params/terminator", "parameter records are not terminated"))
    end_of_records = pos + (1 if terminated == "terminator" else 0)
    sect_end = p0 + nblocks * BLOCK
    if end_of_records > sect_end:
        problems.append(("params/block_count", "records end at section byte %d but the block count (%d) gives %d" % (end_of_records - p0, nblocks, nblocks * BLOCK)))
    else:
        need = (end_of_records - p0 + BLOCK - 1) // BLOCK
        if need > nblocks:
            problems.append(("params/block_count", "records need %d block(s), the block count says %d" % (need, nblocks)))
        pad = b[end_of_records:sect_end]
        if len(pad) != sect_end - end_of_records:
            problems.append(("params/padding", "file ends inside the parameter section"))
        elif any(pad):
            problems.append(("params/padding", "non-zero bytes after the last parameter record inside the section"))
    for p in params:
        if p["gid"] not in groups:
            problems.append(("params/orphan", "parameter %r refers to group id %d which has no group record" % (p["name"], p["gid"])))

    def P(gname, pname):
        for g in groups.values():
            if g["name"].upper() == gname:
                for p in params:
                    if p["gid"] == g["id"] and p["name"].upper() == pname:
                        return p
        return None

    # data section: where do the pointers say it is?
    d_hdr = z + (ds - 1) * BLOCK if ds else None
    pds = P(b"POINT", b"DATA_START")
    d_par = None
    if pds is not None and pds["type"] == 2 and len(pds["raw"]) >= 2:
        d_par = z + (struct.unpack_from("<H", pds["raw"], 0)[0] - 1) * BLOCK
    d_after = p0 + nblocks * BLOCK
    if follow == "header":
        d0 = d_hdr if d_hdr is not None else d_after
    elif follow == "param":
        d0 = d_par if d_par is not None else d_after
    else:
        d0 = d_after
    nfr = last - first + 1 if last >= first else 0
    nch = nmeas // sub if sub else 0
    if sub and nmeas % sub:
        problems.append(("header/analog_counts", "analog measurements per frame %d is not a multiple of sub-frames %d" % (nmeas, sub)))
    fl = 4 * npts + nch * sub
    frames = []
    is_float = scale < 0 or (scale != scale and (scale_bits >> 31))
    for f in range(nfr):
        base = d0 + 4 * f * fl
        if base < 0 or base + 4 * fl > n:
            break
        w = struct.unpack_from("<%dI" % fl, b, base) if fl else ()
        pts = [tuple(w[4 * i:4 * i + 4]) for i in range(npts)]
        an = [list(w[4 * npts + s * nch:4 * npts + (s + 1) * nch]) for s in range(sub)]
        frames.append((pts, an))
    return dict(hdr=hdr, prologue=pro, nblocks=nblocks, proc=proc, groups=groups, params=params, frames=frames,
                problems=problems, p0=p0, d0=d0, d_hdr=d_hdr, d_par=d_par, d_after=d_after, frame_len_words=fl,
                nframes_header=nfr, nch=nch, is_float=is_float, size=n, terminated=terminated, end_of_records=end_of_records, P=P)


def param_values(p):
    """Typed values of a decoded parameter: ints (signed), float bit patterns, or list of byte strings."""
    t, dims, raw = p["type"], p["dims"], p["raw"]
    cnt = 1
    for d in dims:
        cnt *= d
    if len(raw) < cnt * abs(t):
        raw = raw + b"\0" * (cnt * abs(t) - len(raw))      # data cut short by the end of the file: decode() has reported params/data_truncated
    if t == -1:
        if len(dims) == 0:
            return [raw[:1]]
        if len(dims) == 1:
            return [raw]
        w = dims[0]
        nstr = 1
        for d in dims[1:]:
            nstr *= d
        return [raw[i * w:(i + 1) * w] for i in range(nstr)]
    if t == 1:
        return list(struct.unpack("<%db" % cnt, raw[:cnt]))
    if t == 2:
        return list(struct.unpack("<%dh" % cnt, raw[:2 * cnt]))
    return list(struct.unpack("<%dI" % cnt, raw[:4 * cnt]))


# ------------------------------------------------------------------------------------------------ encoder
def _rec_group(g):
    name = g["name"]
    nl = len(name)
    assert 1 <= nl <= 127
    desc = g.get("desc", b"")
    assert len(desc) <= 255
    body = bytes([len(desc)]) + desc
    head = struct.pack("<bb", -nl if g.get("locked") else nl, -g["id"]) + name
    return head, body


def param_raw(p):
    t = p["type"]
    v = p["values"]
    if "raw" in p:
        return p["raw"]
    if t == -1:
        dims = p["dims"]
        if len(dims) == 0:
            return (v[0] + b" ")[:1]
        w = dims[0]
        return b"".join((s + b" " * w)[:w] for s in v)
    if t == 1:
        return struct.pack("<%db" % len(v), *v)
    if t == 2:
        return struct.pack("<%dh" % len(v), *v)
    return struct.pack("<%dI" % len(v), *v)


def _rec_param(p):
    name = p["name"]
    nl = len(name)
    assert 1 <= nl <= 127
    desc = p.get("desc", b"")
    dims = p["dims"]
    assert len(dims) <= 7 and all(0 <= d <= 255 for d in dims)
    raw = param_raw(p)
    cnt = 1
    for d in dims:
        cnt *= d
    assert len(raw) == cnt * abs(p["type"]), (p["name"], len(raw), cnt, p["type"])
    body = struct.pack("<bB", p["type"], len(dims)) + bytes(dims) + raw + bytes([len(desc)]) + desc
    head = struct.pack("<bb", -nl if p.get("locked") else nl, p["gid"]) + name
    return head, body


def encode(content, layout=None):
    """content: dict(npts, nch, sub, first (1-based), nframes, rate_bits, gap, groups=[{id,name,desc,locked}],
                    params=[{gid,name,type,dims,values|raw,desc,locked}] (must contain POINT:DATA_START int scalar),
                    frames=[(pts[(4 words)], analogs[sub][ch])], events=dict(n, times[18], disp[18 bytes], labels[18 x 4 bytes]))
       layout: dict(zeros=0, param_block=2, zero_prologue=False, order='groups_first'|'interleaved'|'params_first'|list of record keys,
                    last='zero_pointer'|'terminator', data_gap_blocks=0, scale_bits=0xbf800000 (-1.0), trailing_fill=0)
    """
    L = dict(zeros=0, param_block=2, zero_prologue=False, order="interleaved", last="zero_pointer", scale_bits=0xBF800000,
             trailing_fill=0, proc=84, prologue=(1, 0x50), klp=0, fbk=0, fcp=12345)
    if layout:
        L.update(layout)
    npts, nch, sub = content["npts"], content["nch"], content["sub"]
    nframes = content["nframes"]
    first = content.get("first", 1)
    last = first + nframes - 1 if nframes > 0 else first - 1 if first > 1 else 0
    if nframes == 0 and "last_when_empty" in content:
        last = content["last_when_empty"]
    groups = content["groups"]
    params = content["params"]
    # record order
    recs = []
    if isinstance(L["order"], list):
        keymap = {("g", g["id"]): g for g in groups}
        keymap.update({("p", p["gid"], p["name"]): p for p in params})
        recs = [(k[0], keymap[tuple(k)]) for k in L["order"]]
    elif L["order"] == "groups_first":
        recs = [("g", g) for g in groups] + [("p", p) for p in params]
    elif L["order"] == "params_first":
        recs = [("p", p) for p in params] + [("g", g) for g in groups]
    else:
        for g in groups:
            recs.append(("g", g))
            recs += [("p", p) for p in params if p["gid"] == g["id"]]
        gids = set(g["id"] for g in groups)
        recs += [("p", p) for p in params if p["gid"] not in gids]
    # first pass to know the section size (DATA_START value depends on it)
    def build(data_start_block):
        out = bytearray()
        n = len(recs)
        for i, (kind, r) in enumerate(recs):
            if kind == "p" and r["name"].upper() == b"DATA_START" and r.get("is_data_start"):
                r = dict(r, values=[data_start_block if data_start_block < 32768 else data_start_block - 65536])
            head, body = _rec_group(r) if kind == "g" else _rec_param(r)
            lastrec = i == n - 1
            off = 2 + len(body)
            assert off <= 65535
            if lastrec and L["last"] == "zero_pointer":
                off = 0
            out += head + struct.pack("<H", off) + body
        if L["last"] == "terminator" or not recs:
            out += b"\0"
        return bytes(out)
    body0 = build(0)
    nblocks = (4 + len(body0) + BLOCK - 1) // BLOCK
    nblocks += L.get("extra_param_blocks", 0)
    if L.get("data_block_min"):        # spare blocks until the data start at (at least) this block number, e.g. 256..257: the pointer needs its high byte
        nblocks = max(nblocks, min(255, L["data_block_min"] - L["param_block"]))
    assert nblocks <= 255
    data_block = L["param_block"] + nblocks
    body = build(data_block)
    assert len(body) == len(body0)
    pro = (0, 0) if L["zero_prologue"] else L["prologue"]
    psect = bytes([pro[0], pro[1], nblocks, L["proc"]]) + body
    psect += b"\0" * (nblocks * BLOCK - len(psect))
    # header
    H = bytearray(BLOCK)
    H[0] = L["param_block"]
    H[1] = 0x50
    struct.pack_into("<HHHHH", H, 2, npts, nch * sub, first & 0xFFFF, last & 0xFFFF, content.get("gap", 10))
    struct.pack_into("<I", H, 12, L["scale_bits"])
    struct.pack_into("<HH", H, 16, data_block, sub)
    struct.pack_into("<I", H, 20, content["rate_bits"])
    ev = content.get("events") or dict(n=0, times=[0] * 18, disp=[0] * 18, labels=[b"\0\0\0\0"] * 18)
    struct.pack_into("<HHHHH", H, 147 * 2, L["klp"], L["fbk"], L["fcp"], ev["n"], 0)
    struct.pack_into("<18I", H, 152 * 2, *ev["times"])
    H[188 * 2:188 * 2 + 18] = bytes(ev["disp"])
    for i in range(18):
        H[198 * 2 + 4 * i:198 * 2 + 4 * i + 4] = (ev["labels"][i] + b"\0\0\0\0")[:4]
    out = bytearray(b"\0" * L["zeros"]) + H
    out += b"\0" * ((L["param_block"] - 2) * BLOCK)
    out += psect
    for pts, an in content["frames"]:
        for p in pts:
            out += struct.pack("<4I", *p)
        for s in an:
            if s:
                out += struct.pack("<%dI" % len(s), *s)
    if L["trailing_fill"]:
        rem = (-(len(out) - L["zeros"])) % BLOCK
        out += b"\0" * rem
    return bytes(out)


def content_of(dec):
    """Normalised content of a decoded file (for the encoder self-test): everything encode() was given."""
    h = dec["hdr"]
    return dict(npts=h["npts"], nmeas=h["nmeas"], sub=h["sub"], first=h["first"], last=h["last"], rate_bits=h["rate_bits"], gap=h["gap"],
                groups=sorted((g["id"], g["name"], g["desc"], g["locked"]) for g in dec["groups"].values()),
                params=sorted((p["gid"], p["name"], p["type"], tuple(p["dims"]), p["raw"], p["desc"], p["locked"]) for p in dec["params"]),
                frames=[(list(map(tuple, pts)), [list(s) for s in an]) for pts, an in dec["frames"]],
                events=(h["nev"], tuple(h["etimes"]), tuple(h["edisp_bytes"]), tuple(h["elab"])))
