"""Oracles over (library snapshot JSON, reference decode):
   loaded_vs_ref  -- C02/C12: the loaded object exposes exactly what the bytes encode
   saved_consistency -- C03: a saved file is a valid, self-consistent C3D and decodes to the saving object's content
Each returns a list of (key, detail); keys name diagnosed causes (finite vocabulary)."""
import math
import struct

import c3dref


def unhex(s):
    return bytes.fromhex(s)


def f32_of_bits(u):
    return struct.unpack("<f", struct.pack("<I", u))[0]


def norm_snapshot(j):
    """Turn the driver's JSON snapshot into python values (byte strings for names)."""
    groups = []
    for g in j["groups"]:
        ps = []
        for p in g["params"]:
            v = p["v"]
            if p["type"] == -1:
                v = [unhex(x) for x in v]
            ps.append(dict(name=unhex(p["name"]), desc=unhex(p["desc"]), lock=bool(p["lock"]), type=p["type"], dims=p["dims"], v=v))
        groups.append(dict(name=unhex(g["name"]), desc=unhex(g["desc"]), lock=bool(g["lock"]), params=ps))
    frames = []
    names0 = None
    for f in j.get("frames", []):
        pn = f["pn"]
        if pn == [0]:
            pn = names0
        else:
            pn = [unhex(x) for x in pn]
        if names0 is None:
            names0 = pn
        p = f["p"]
        pts = [tuple(p[4 * i:4 * i + 4]) for i in range(len(p) // 4)]
        frames.append(dict(pn=pn, pts=pts, cn=[unhex(x) for x in f["cn"]], an=f["a"]))
    h = dict(j["h"])
    h["elab"] = [unhex(x) for x in h["elab"]]
    return dict(h=h, ph=j["ph"], groups=groups, frames=frames, nframes=j["nframes"])


def rtrim(b):
    return b.rstrip(b" ")


def expected_strings(p):
    """What the statement promises for a char parameter: its strings, right-trimmed."""
    vals = c3dref.param_values(p)
    dims = p["dims"]
    if len(dims) == 1 and dims[0] == 0:
        return []           # a 1-D string of length 0 holds no characters; an empty list and [''] are both accepted by the caller
    return [rtrim(v.split(b"\0")[0]) if False else rtrim(v) for v in vals]


def loaded_vs_ref(S, D, max_out=12):
    out = []

    def add(key, detail):
        if len(out) < max_out:
            out.append((key, detail))
    h, H = D["hdr"], S["h"]
    # ---- header
    if H["nPts"] != h["npts"]:
        add("header/points", "library %d, file %d" % (H["nPts"], h["npts"]))
    if H["sub"] != h["sub"] and not (D["nch"] == 0 and H["nAnalogs"] == 0):     # without channels the sub-frame count is not observable
        # diagnose the truncated rate ratio (float division truncated instead of rounded)
        pr = D["P"](b"POINT", b"RATE")
        ar = D["P"](b"ANALOG", b"RATE")
        key = "header/subframes"
        if pr and ar and pr["type"] == 4 and ar["type"] == 4:
            a = f32_of_bits(c3dref.param_values(ar)[0])
            p = f32_of_bits(c3dref.param_values(pr)[0])
            if p:
                ratio = struct.unpack("<f", struct.pack("<f", a / p))[0]
                if int(ratio) == H["sub"] and round(ratio) == h["sub"] and int(ratio) != round(ratio):
                    key = "header/subframes/truncated_rate_ratio"
        add(key, "library %d sub-frames, file header %d" % (H["sub"], h["sub"]))
        return out      # the data section is parsed with another frame length: nothing below would add information
    if H["nMeas"] != h["nmeas"] and H["sub"] == h["sub"]:
        add("header/analog_samples_per_frame", "library %d, file %d" % (H["nMeas"], h["nmeas"]))
    nfr = D["nframes_header"]
    if nfr > 0 or (h["npts"] == 0 and D["nch"] == 0):
        if nfr > 0 and (H["first"] != h["first"] - 1 or H["last"] != h["last"] - 1):
            add("header/frame_range", "library first/last %d/%d (0-based), file %d/%d (1-based)" % (H["first"], H["last"], h["first"], h["last"]))
    if H["nbFrames"] != nfr and not (h["npts"] == 0 and D["nch"] == 0):
        add("header/frame_count", "library %d, file %d" % (H["nbFrames"], nfr))
    if H["rate"] != h["rate_bits"]:
        a, b = f32_of_bits(H["rate"]), f32_of_bits(h["rate_bits"])
        if not (abs(a - b) <= 1e-4):
            add("header/rate", "library %r, file %r" % (a, b))
    if H["gap"] != h["gap"]:
        add("header/gap", "library %d, file %d" % (H["gap"], h["gap"]))
    # ---- events
    if H["nev"] != h["nev"]:
        add("events/count", "library %d, file %d" % (H["nev"], h["nev"]))
    if list(H["etimes"]) != list(h["etimes"]):
        add("events/times", "event time bit patterns differ")
    if list(H["edisp"]) != list(h["edisp_words"]):
        add("events/display", "display words differ: %s vs %s" % (H["edisp"], h["edisp_words"]))
    want_lab = [l.split(b"\0")[0] for l in h["elab"]]
    if list(H["elab"]) != want_lab:
        add("events/labels", "labels %r vs %r" % (H["elab"][:4], want_lab[:4]))
    # ---- groups and parameters (named groups only)
    libg = {}
    for g in S["groups"]:
        if g["name"] and g["name"] not in libg:
            libg[g["name"]] = g
    for gid, G in sorted(D["groups"].items()):
        L = libg.get(G["name"])
        if L is None:
            add("group/missing", "group %r (id %d) not exposed" % (G["name"], gid))
            continue
        if L["lock"] != G["locked"]:
            add("group/lock", "group %r" % G["name"])
        if L["desc"] != G["desc"]:
            add("group/description", "group %r: %d vs %d chars" % (G["name"], len(L["desc"]), len(G["desc"])))
        rp = [p for p in D["params"] if p["gid"] == gid]
        lp = {}
        for p in L["params"]:
            lp.setdefault(p["name"], p)
        if len(L["params"]) != len(rp):
            add("group/param_count", "group %r: library %d, file %d" % (G["name"], len(L["params"]), len(rp)))
        for p in rp:
            q = lp.get(p["name"])
            nm = (G["name"] + b":" + p["name"]).decode("latin1")
            if q is None:
                add("param/missing", nm)
                continue
            if q["type"] != p["type"]:
                add("param/type", "%s library %d file %d" % (nm, q["type"], p["type"]))
                continue
            if q["lock"] != p["locked"]:
                add("param/lock", nm)
            if q["desc"] != p["desc"]:
                add("param/description", "%s: %d vs %d chars" % (nm, len(q["desc"]), len(p["desc"])))
            rd = p["dims"] if p["dims"] else [1]      # a scalar is a one-element array
            if list(q["dims"]) != list(rd):
                add("param/dims", "%s library %s file %s" % (nm, q["dims"], p["dims"]))
            if p["type"] == -1:
                want = expected_strings(p)
                got = list(q["v"])
                if got != want and not (want == [] and got in ([], [b""])) and not (len(p["dims"]) == 1 and p["dims"][0] == 0):
                    add("param/strings", "%s library %r file %r" % (nm, got[:3], want[:3]))
            else:
                want = c3dref.param_values(p)
                if list(q["v"]) != want:
                    k = next((i for i in range(min(len(want), len(q["v"]))) if want[i] != q["v"][i]), -1)
                    add("param/values/" + {1: "byte", 2: "int", 4: "float"}[p["type"]], "%s n=%d/%d first diff at %d: %s vs %s" % (
                        nm, len(q["v"]), len(want), k, q["v"][k] if k >= 0 else None, want[k] if k >= 0 else None))
    # ---- data
    if len(S["frames"]) != len(D["frames"]) and len(D["frames"]) == nfr:
        add("frames/count", "library %d frames, file %d" % (len(S["frames"]), nfr))
    pl = D["P"](b"POINT", b"LABELS")
    al = D["P"](b"ANALOG", b"LABELS")
    plabels = [rtrim(x) for x in c3dref.param_values(pl)] if pl and pl["type"] == -1 else []
    alabels = [rtrim(x) for x in c3dref.param_values(al)] if al and al["type"] == -1 else []
    nbad = 0
    for f, (pts, an) in enumerate(D["frames"]):
        if f >= len(S["frames"]):
            break
        F = S["frames"][f]
        if [tuple(p) for p in F["pts"]] != [tuple(p) for p in pts]:
            comp = "count"
            if len(F["pts"]) == len(pts):
                for a, b in zip(F["pts"], pts):
                    if tuple(a) != tuple(b):
                        comp = "residual" if tuple(a[:3]) == tuple(b[:3]) else "xyz"
                        break
            add("point/" + comp, "frame %d" % f)
            nbad += 1
        if [list(s) for s in F["an"] if len(s)] != [list(s) for s in an if len(s)]:     # sub-frames without channels hold nothing
            add("analog/sample", "frame %d: library %dx%d file %dx%d" % (f, len(F["an"]), len(F["an"][0]) if F["an"] else 0, len(an), len(an[0]) if an else 0))
            nbad += 1
        if f == 0 or nbad == 0:
            for i, nm in enumerate(F["pn"] or []):
                if i < len(plabels) and nm != plabels[i]:
                    add("point/name", "frame %d point %d is %r, label %r" % (f, i, nm, plabels[i]))
                    break
            for i, nm in enumerate(F["cn"]):
                if i < len(alabels) and nm != alabels[i]:
                    add("channel/name", "frame %d channel %d is %r, label %r" % (f, i, nm, alabels[i]))
                    break
        if nbad > 3:
            break
    return out


def saved_consistency(S, b, gaps=False, max_out=16, rates_consistent=True):
    """C03 oracle on the bytes of a saved file (S = snapshot of the saving object, may be None)."""
    out = []

    def add(key, detail):
        if len(out) < max_out:
            out.append((key, detail))
    try:
        D = c3dref.decode(b)
    except c3dref.FormatError as e:
        return [("undecodable", str(e))], None
    except Exception as e:   # struct errors on short files etc.
        return [("undecodable", "%s: %s" % (type(e).__name__, e))], None
    for k, t in D["problems"]:
        add(k, t)
    need = (D["end_of_records"] - D["p0"] + 511) // 512
    if need != D["nblocks"] and not any(k == "params/block_count" for k, _ in D["problems"]):
        add("params/block_count", "records need %d block(s), the block count says %d" % (need, D["nblocks"]))
    h = D["hdr"]
    if h["zeros"] != 0:
        add("header/leading_zeros", "saved file starts with %d zero bytes" % h["zeros"])
    # pointers
    if D["d_hdr"] != D["d_after"]:
        add("pointer/header_data_start", "header data-start word %d, the parameter section (block %d + %d blocks) ends at block %d" % (h["data_start"], h["param_block"], D["nblocks"], h["param_block"] + D["nblocks"]))
    pds = D["P"](b"POINT", b"DATA_START")
    if pds is None:
        # only a loss when the saving object HAS the parameter (a file can be loaded without POINT:DATA_START; the object, and a file that
        # decodes to it, then have none)
        has = S is None or any(g_["name"].upper() == b"POINT" and any(q_["name"].upper() == b"DATA_START" for q_ in g_["params"]) for g_ in S["groups"])
        if has:
            add("pointer/point_data_start_missing", "no POINT:DATA_START parameter")
    elif D["d_par"] != D["d_after"]:
        v = c3dref.param_values(pds)
        key = "pointer/point_data_start"
        if v and v[0] == h["param_block"] + D["nblocks"] - 1:
            key += "/minus_one"
        add(key, "POINT:DATA_START=%s, data really start at block %d" % (v[:1], h["param_block"] + D["nblocks"]))
    if D["prologue"] not in ((1, 0x50), (0, 0)):
        add("params/prologue", "parameter section starts with bytes %s" % (D["prologue"],))
    # header vs parameters
    def ival(g, p):
        q = D["P"](g, p)
        if q is None or q["type"] not in (1, 2) or not q["raw"]:
            return None
        return c3dref.param_values(q)[0]

    def fval(g, p):
        q = D["P"](g, p)
        if q is None or q["type"] != 4 or not q["raw"]:
            return None
        return f32_of_bits(c3dref.param_values(q)[0])
    used, aused, pframes, prate = ival(b"POINT", b"USED"), ival(b"ANALOG", b"USED"), ival(b"POINT", b"FRAMES"), fval(b"POINT", b"RATE")
    if used is None or used != h["npts"]:
        add("counts/points", "header points %d, POINT:USED %s" % (h["npts"], used))
    agrp = [g for g in D["groups"].values() if g["name"].upper() == b"ANALOG"]
    ahas = bool(agrp) and any(p["gid"] == agrp[0]["id"] for p in D["params"])
    if ahas:
        if aused is None or h["nmeas"] != aused * h["sub"]:
            add("counts/analog", "header samples/frame %d, ANALOG:USED %s x sub-frames %d" % (h["nmeas"], aused, h["sub"]))
    elif h["nmeas"] != 0:
        add("counts/analog", "header samples/frame %d but no ANALOG parameters" % h["nmeas"])
    nfr = D["nframes_header"]
    if pframes is not None:
        pf = pframes & 0xFFFF
        ok = (nfr == pf) or (pf == 0 and h["last"] in (h["first"], h["first"] - 1))
        if not ok:
            add("counts/frames", "header first/last %d/%d (%d frames), POINT:FRAMES %d" % (h["first"], h["last"], nfr, pf))
    else:
        add("counts/frames", "no POINT:FRAMES")
    if h["first"] < 1 and not (pframes == 0):
        add("header/first_frame", "first frame word is %d (frames are numbered from 1)" % h["first"])
    if prate is None or not (abs(prate - f32_of_bits(h["rate_bits"])) <= 1e-4):
        add("counts/rate", "header rate %r, POINT:RATE %r" % (f32_of_bits(h["rate_bits"]), prate))
    # header sub-frames vs the rate parameters (when channels are in use and both rates are set)
    arate = fval(b"ANALOG", b"RATE")
    if ahas and aused and prate and arate is not None and not gaps and rates_consistent:
        ratio = arate / prate
        if int(ratio + 0.5) != h["sub"]:
            add("counts/subframes_vs_rates", "header sub-frames %d, ANALOG:RATE / POINT:RATE = %r / %r" % (h["sub"], arate, prate))
    # float-format marker: a negative float in the scale word
    sc = h["scale"]
    if not (sc < 0):
        key = "header/scale_word"
        if h["scale_bits"] == 0xFFFFFFFF:
            key += "/int_minus_one_bits"
        add(key, "scale word bits %#010x read as float %r: not a negative float (float-format marker)" % (h["scale_bits"], sc))
    # data section length
    pf_eff = (pframes & 0xFFFF) if pframes is not None else nfr
    want_words = pf_eff * D["frame_len_words"]
    have = D["size"] - D["d_after"]
    if have != 4 * want_words:
        extra = have - 4 * want_words
        tail = b[D["d_after"] + 4 * want_words:] if extra > 0 else b""
        if extra > 0 and extra < 512 and not any(tail) and (D["size"] % 512) == 0:
            pass   # zero fill to the block boundary is tolerated
        else:
            add("data/length" + ("/gap_frames_written_short" if gaps and extra < 0 else ""), "data section has %d bytes, frames x (4 x points + channels x sub-frames) floats = %d bytes" % (have, 4 * want_words))
    # names upper case, lock flags already decoded from the sign of the name length
    for g in D["groups"].values():
        if g["name"] != g["name"].upper():
            add("names/not_upper_case", "group %r" % g["name"])
    for p in D["params"]:
        if p["name"] != p["name"].upper():
            add("names/not_upper_case", "parameter %r" % p["name"])
    if S is None:
        return out, D
    # ---- decoded content == content in memory
    memg = [g for g in S["groups"] if g["name"]]
    if len(memg) != len(D["groups"]):
        add("content/group_count", "memory %d named groups, file %d" % (len(memg), len(D["groups"])))
    byname = {g["name"]: g for g in D["groups"].values()}
    for g in memg:
        G = byname.get(g["name"].upper())
        if G is None:
            add("content/group_missing", "%r" % g["name"])
            continue
        if G["locked"] != g["lock"]:
            add("content/group_lock", "%r: lock flag in memory %s, sign of the name length says %s" % (g["name"], g["lock"], G["locked"]))
        if G["desc"] != g["desc"]:
            add("content/group_description", "%r" % g["name"])
        fp = {p["name"]: p for p in D["params"] if p["gid"] == G["id"]}
        if len(fp) != len(g["params"]):
            add("content/param_count", "group %r: memory %d file %d" % (g["name"], len(g["params"]), len(fp)))
        for q in g["params"]:
            p = fp.get(q["name"].upper())
            nm = (g["name"] + b":" + q["name"]).decode("latin1")
            if p is None:
                add("content/param_missing", nm)
                continue
            if p["type"] != q["type"]:
                add("content/param_type", "%s memory %d file %d" % (nm, q["type"], p["type"]))
                continue
            if p["locked"] != q["lock"]:
                add("content/param_lock", nm)
            if p["desc"] != q["desc"]:
                add("content/param_description", "%s %d vs %d chars" % (nm, len(q["desc"]), len(p["desc"])))
            rd = p["dims"] if p["dims"] else [1]
            if list(q["dims"]) != list(rd):
                add("content/param_dims", "%s memory %s file %s" % (nm, q["dims"], p["dims"]))
            if g["name"].upper() == b"POINT" and q["name"].upper() == b"DATA_START":
                continue
            if p["type"] == -1:
                want = [rtrim(x) for x in q["v"]]
                got = [rtrim(x) for x in c3dref.param_values(p)]
                if len(p["dims"]) == 1 and p["dims"][0] == 0:
                    got = want
                if got != want:
                    add("content/param_strings", "%s memory %r file %r" % (nm, want[:3], got[:3]))
            else:
                got = c3dref.param_values(p)
                want = list(q["v"])
                if p["type"] == 2:
                    want16 = [((v + 32768) & 0xFFFF) - 32768 for v in want]
                    if got != want16:
                        add("content/param_values/int", "%s" % nm)
                    elif want16 != want:
                        add("content/param_values/int_beyond_int16", "%s holds a value outside the 16-bit range; the file stores its low 16 bits" % nm)
                elif got != want:
                    add("content/param_values", "%s" % nm)
    if not gaps and D["frame_len_words"] == 0 and len(S["frames"]) == 0:
        pass        # no point and no channel: frames have length zero, "first = last" is the accepted encoding of "no frames"
    elif not gaps:
        if len(D["frames"]) != len(S["frames"]):
            add("content/frame_count", "memory %d frames, file decodes %d" % (len(S["frames"]), len(D["frames"])))
        for f, (pts, an) in enumerate(D["frames"]):
            if f >= len(S["frames"]):
                break
            F = S["frames"][f]
            if [tuple(p) for p in F["pts"]] != [tuple(p) for p in pts]:
                add("content/points", "frame %d" % f)
                break
            fa = [list(s) for s in F["an"] if len(s)]
            da = [list(s) for s in an if len(s)]
            if fa != da:
                add("content/analogs", "frame %d" % f)
                break
    return out, D
