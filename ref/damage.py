"""Damage specifications for C16: truncations, byte overwrites, structure-aware field corruption.
A spec is '<base path>|<mutation>' interpreted by the driver's `damage` mode."""
import random

import c3dref

BOUND = [0, 1, 0x7F, 0x80, 0xFF]


def field_offsets(b):
    """Absolute offsets of every structural field of header and parameter records: list of (name, offset, width)."""
    D = c3dref.decode(b)
    z = D["hdr"]["zeros"]
    out = [("hdr.param_block", z + 0, 1), ("hdr.key", z + 1, 1)]
    for w, nm in ((2, "npts"), (3, "nmeas"), (4, "first"), (5, "last"), (6, "gap"), (7, "scale_lo"), (8, "scale_hi"), (9, "data_start"), (10, "sub"), (11, "rate_lo"), (12, "rate_hi"), (148, "klp"), (149, "fbk"), (150, "fcp"), (151, "nev")):
        out.append(("hdr." + nm, z + (w - 1) * 2, 2))
    p0 = D["p0"]
    out += [("par.prologue0", p0, 1), ("par.prologue1", p0 + 1, 1), ("par.nblocks", p0 + 2, 1), ("par.proc", p0 + 3, 1)]
    for g in D["groups"].values():
        pos = p0 + g["offset"]
        nl = len(g["name"])
        out += [("grp.namelen", pos, 1), ("grp.id", pos + 1, 1), ("grp.next", pos + 2 + nl, 2), ("grp.desclen", pos + 4 + nl, 1)]
    for p in D["params"]:
        pos = p0 + p["offset"]
        nl = len(p["name"])
        q = pos + 2 + nl
        out += [("prm.namelen", pos, 1), ("prm.gid", pos + 1, 1), ("prm.next", q, 2), ("prm.type", q + 2, 1), ("prm.ndims", q + 3, 1)]
        for i in range(len(p["dims"])):
            out.append(("prm.dim%d" % i, q + 4 + i, 1))
        out.append(("prm.desclen", q + 4 + len(p["dims"]) + len(p["raw"]), 1))
    if D["terminated"] == "terminator":
        out.append(("par.terminator", D["end_of_records"] - 1, 1))
    return out, D


def specs_for(path, b, seed, quick=True, small_limit=4096):
    r = random.Random(seed)
    n = len(b)
    S = []
    # truncations
    if n <= small_limit:
        lens = list(range(0, n))
    else:
        lens = sorted(set(list(range(0, 1100, 7 if quick else 1)) + [k + d for k in range(512, n, 512) for d in (-2, -1, 0, 1, 2) if (k // 512) % (16 if quick else 2) == 0] + [r.randrange(n) for _ in range(40 if quick else 400)] + [n - 1, n - 2, n - 3, n - 4]))
        lens = [x for x in lens if 0 <= x < n]
    S += [("trunc", "%s|trunc=%d" % (path, L)) for L in lens]
    try:
        fields, D = field_offsets(b)
    except Exception:
        fields, D = [], None
    meta_end = D["d_after"] if D else min(n, 1024)
    # single byte overwrites at every offset of header + parameter section (small files) or of the structural fields (large files)
    if n <= small_limit:
        offs = range(0, min(meta_end, n))
    else:
        offs = sorted(set(o + k for _, o, w in fields for k in range(w)))
        if quick:
            offs = offs[::3]
    for off in offs:
        for v in BOUND + [r.randrange(256)]:
            if b[off] != v:
                S.append(("byte", "%s|set=%d:%d" % (path, off, v)))
    # structure-aware: every structural field set to boundary values (both bytes of 16-bit fields)
    for name, off, w in fields:
        for v in BOUND + [2, 3, 4, 5, 7, 8, 0xFE, 0x81]:
            if w == 1:
                if b[off] != v:
                    S.append(("field:" + name, "%s|set=%d:%d" % (path, off, v)))
            else:
                for hi in (0, 0x7F, 0x80, 0xFF):
                    S.append(("field:" + name, "%s|set=%d:%d,%d:%d" % (path, off, v, off + 1, hi)))
    # double byte overwrites: pairs of structural fields
    npairs = 300 if quick else 6000
    if fields:
        for _ in range(npairs):
            (n1, o1, w1), (n2, o2, w2) = r.choice(fields), r.choice(fields)
            S.append(("pair", "%s|set=%d:%d,%d:%d" % (path, o1, r.choice(BOUND + [r.randrange(256)]), o2, r.choice(BOUND + [r.randrange(256)]))))
    # havoc: several random bytes at once, copied blocks, swapped blocks (coverage-blind fuzzing of what the structured classes do not reach)
    nh = 60 if quick else 1500
    for _ in range(nh):
        k = r.randint(3, 8)
        hi = min(n, meta_end + 64)
        edits = ",".join("%d:%d" % (r.randrange(hi), r.choice(BOUND + [r.randrange(256)])) for _ in range(k))
        S.append(("havoc", "%s|set=%s" % (path, edits)))
    return S
