"""Corpus generator: well-formed C3D files from the reference encoder, layout variants x content shapes.
Deterministic in (seed, index)."""
import random
import struct

import c3dref

NTSC = [29.97, 59.94, 23.976, 119.88]
EXACT = [50.0, 60.0, 100.0, 120.0, 200.0, 250.0, 30.0, 25.0, 1000.0, 0.5]


def f32(x):
    return struct.unpack("<f", struct.pack("<f", x))[0]


def fbits(x):
    return struct.unpack("<I", struct.pack("<f", x))[0]


def bitsf(u):
    return struct.unpack("<f", struct.pack("<I", u))[0]


def _fragile_pairs():
    """(point rate, sub-frames) pairs whose float32 ratio ANALOG:RATE / POINT:RATE lands just below the integer: a reader that truncates
    instead of rounding sees one sub-frame too few.  Found by search, not hard-coded."""
    out = []
    for r in [23.976, 29.97, 59.94, 47.952, 47.95, 119.88, 239.76, 30.3, 7.7, 14.985, 11.988, 99.9, 33.3, 66.6, 0.7, 1.1, 12.3, 1.3, 2.7, 17.1, 71.93]:
        for sub in range(2, 21):
            a = f32(f32(r) * sub)
            q = f32(a / f32(r))
            if int(q) != sub and round(q) == sub:
                out.append((r, sub))
    return out


FRAGILE = _fragile_pairs()

SPECIAL = [0x00000000, 0x80000000, 0x00000001, 0x807fffff, 0x00800000, 0x7f7fffff, 0xff7fffff, 0x7f800000, 0xff800000,
           0x7fc00000, 0xffc00000, 0x7fa00001, 0xff800001, 0x7fffffff, 0x3f800000, 0xbf800000, 0x7f800001, 0x00400000]


def rand_float_bits(r, special=True):
    k = r.random()
    if not special or k < 0.6:
        return fbits(r.choice([r.uniform(-1000, 1000), r.randint(-5000, 5000) / 8.0, r.uniform(-1, 1) * 1e-3, r.uniform(-1, 1) * 1e7]))
    if k < 0.8:
        return r.choice(SPECIAL)
    return (r.getrandbits(1) << 31) | (r.randrange(256) << 23) | r.choice([0, 1, 0x7fffff, r.getrandbits(23)])


def rand_name(r, prefix, maxlen=12, upper=True):
    n = r.randint(1, maxlen)
    alphabet = "ABCDEFGHIJKLMNOPQRSTUVWXYZ0123456789_" if upper else "ABCdefghij0123456789_:# xyz"
    s = prefix + "".join(r.choice(alphabet) for _ in range(n))
    s = s.rstrip(" ") or prefix
    return s.encode()


def rand_desc(r, maxlen=255):
    k = r.random()
    if k < 0.45:
        n = 0
    elif k < 0.8:
        n = r.randint(1, 40)
    else:
        n = r.choice([127, 128, 129, 200, 254, 255, r.randint(41, 255)])
    n = min(n, maxlen)
    return bytes(r.choice(b"abcdefghijklmnopqrstuvwxyz ,.-0123456789") for _ in range(n)).rstrip(b" ") if n else b""


def strings_param(gid, name, strs, width=None, **kw):
    w = max([len(s) for s in strs] + [0]) if width is None else width
    return dict(gid=gid, name=name, type=-1, dims=[w, len(strs)], values=[s for s in strs], **kw)


def rand_custom_param(r, gid, name, maxdesc=255, state=None):
    t = r.choice([-1, 1, 2, 4])
    nd = r.choice([0, 0, 1, 1, 2, 2, 3, r.randint(3, 7)])
    dims = []
    for i in range(nd):
        dims.append(r.choice([0, 1, 1, 2, 2, 3, 4]) if nd > 2 else r.choice([0, 1, 2, 3, 5, 8, r.randint(0, 40)]))
    if nd == 1 and r.random() < 0.1:
        dims = [r.choice([254, 255])]
    cnt = 1
    for d in dims:
        cnt *= d
    if cnt * abs(t) > 4000:
        dims = [min(d, 3) for d in dims]
        cnt = 1
        for d in dims:
            cnt *= d
    if r.random() < 0.02 and t in (1, -1) and state is not None and not state.get("big"):
        state["big"] = True
        dims = [r.choice([182, 200, 255]), r.choice([182, 200, 255])]     # one record of more than 32767 bytes (the next-offset word is unsigned)
        cnt = dims[0] * dims[1]
        nd = 2
    p = dict(gid=gid, name=name, type=t, dims=dims, desc=rand_desc(r, maxdesc), locked=r.random() < 0.25)
    if t == -1:
        if nd == 0:
            p["values"] = [bytes([r.choice(b"ABCxyz019")])]
        elif nd == 1:
            w = dims[0]
            k = r.randint(0, w)
            p["values"] = [bytes(r.choice(b"ABCdef 12_") for _ in range(k)).rstrip(b" ")]
        else:
            if nd == 2 and r.random() < 0.15:
                dims[0] = r.choice([130, 200, 254, 255])      # a wide cell with mostly short entries: long padding runs
                dims[1] = r.randint(1, 4)
                cnt = dims[0] * dims[1]
                p["dims"] = dims
            w = dims[0]
            n = cnt // w if w else 1
            if w == 0:
                n = 1
                for d in dims[1:]:
                    n *= d
            p["values"] = [bytes(r.choice(b"ABCdef 12_") for _ in range(r.randint(0, w))).rstrip(b" ") for _ in range(n)]
            if p["values"] and p["values"][0] and r.random() < 0.15:
                p["values"][0] = p["values"][0][:-1] + r.choice([b"\t", b"\n", b"\r"])     # a cell ending in white space that is NOT a blank (only blanks are padding)
    elif t == 1:
        p["values"] = [r.randint(-128, 127) for _ in range(cnt)]
    elif t == 2:
        p["values"] = [r.choice([r.randint(-32768, 32767), r.randint(-300, 300), 32767, -32768, -1, 0]) for _ in range(cnt)]
    else:
        p["values"] = [rand_float_bits(r) for _ in range(cnt)]
    return p


LAYOUT_KNOBS = ["zeros", "param_block", "zero_prologue", "order", "last", "sparse_ids", "labels_vs_points", "empty_analog", "first_frame", "events", "trailing_fill", "extra_blocks", "key_words"]


def gen_case(seed, idx, big=False, force=None, ntsc_ok=True, data_block_min=None):
    """Return (content, layout, meta)."""
    r = random.Random((seed * 1000003 + idx) & 0xFFFFFFFF)
    meta = {"idx": idx, "variants": []}
    # ---------------- shape
    npts = r.choice([0, 1, 2, 3, 5, 8, 12, r.randint(0, 40), r.choice([128, 200, 254, 255])]) if not big else r.choice([255, 254, 128])
    nch = r.choice([0, 0, 1, 2, 3, 6, r.randint(0, 16), r.randint(0, 60)])
    sub = r.choice([1, 1, 2, 4, 5, 10, r.randint(1, 20)])
    nframes = r.choice([0, 1, 2, 3, 5, 10, r.randint(0, 50)])
    if npts == 0 and nch == 0:
        nframes = 0      # frames without any point or channel store nothing: the frame count would not be observable
    if npts * nframes > 3000:
        nframes = max(1, 3000 // max(1, npts))
    if nch * sub * nframes > 4000:
        nframes = max(1, 4000 // (nch * sub))
    # ---------------- layout variants: each alone (idx-driven) or in random combination
    L = {}
    mode = idx % 4
    chosen = set()
    if mode == 0:
        chosen = set()
    elif mode in (1, 2):
        chosen = {LAYOUT_KNOBS[(idx // 4) % len(LAYOUT_KNOBS)]}
    else:
        chosen = set(k for k in LAYOUT_KNOBS if r.random() < 0.35)
    if force:
        chosen |= set(force)
    if "zeros" in chosen:
        L["zeros"] = r.choice([1, 2, 511, 512, 1024, 3])
    if "param_block" in chosen:
        L["param_block"] = r.choice([3, 4, 5, 6])
    if "zero_prologue" in chosen:
        L["zero_prologue"] = True
    L["order"] = r.choice(["groups_first", "params_first", "shuffle"]) if "order" in chosen else "interleaved"
    L["last"] = "terminator" if "last" in chosen else "zero_pointer"
    if "trailing_fill" in chosen:
        L["trailing_fill"] = 1
    if "extra_blocks" in chosen:
        L["extra_param_blocks"] = r.choice([1, 2, 5])        # the block count is larger than the records need: zero blocks before the data
        if r.random() < 0.12:
            L["data_block_min"] = r.choice([255, 256, 257])   # (with the parameter section at block 2..6) the data pointer reaches 256: both of its bytes matter
            meta["variants"].append("data_start_beyond_255")
    if data_block_min:
        L["data_block_min"] = data_block_min
        meta["variants"].append("data_start_beyond_255")
    if "key_words" in chosen:
        L["klp"], L["fbk"], L["fcp"] = r.choice([0, 12345]), r.choice([0, 3, 200]), r.choice([12345, 0])
    empty_analog = "empty_analog" in chosen
    if empty_analog:
        nch = 0
        if npts == 0:
            nframes = 0
    # ---------------- rates
    ntsc = ntsc_ok and r.random() < 0.15
    prate = r.choice(NTSC) if ntsc else r.choice(EXACT)
    if npts == 0 and nch > 0 and r.random() < 0.3:
        prate = r.choice(EXACT)
    arate = f32(f32(prate) * sub)
    if empty_analog:
        sub_hdr = 0     # no analog information at all: the header carries 0 sub-frames
    else:
        sub_hdr = sub
    if FRAGILE and idx % 25 == 3 and not empty_analog:
        # a rate pair whose float ratio is a hair below the integer number of sub-frames (needs at least one channel to be observable)
        prate, sub = FRAGILE[(idx // 25 + seed) % len(FRAGILE)]
        arate = f32(f32(prate) * sub)
        sub_hdr = sub
        nch = max(nch, 1)
        if nch * sub * nframes > 4000:
            nframes = max(1, 4000 // (nch * sub))
        ntsc = True
        meta["variants"] = ["fragile_rate_ratio"]
    # no channels, yet an ANALOG group that only says so (USED = 0, RATE, GEN_SCALE; no LABELS/SCALE/OFFSET/UNITS arrays) while the header
    # still carries the sub-frame ratio
    minimal_analog = nch == 0 and not empty_analog and r.random() < 0.3
    if minimal_analog:
        meta["variants"].append("minimal_analog_group")
    meta["rates"] = [prate, arate, sub]
    # ---------------- group ids
    ngroups_custom = r.choice([0, 0, 1, 2, 3, r.randint(0, 6)])
    names = [b"POINT", b"ANALOG"] + ([b"FORCE_PLATFORM"] if r.random() < 0.4 else [])
    used_names = set(names)
    for i in range(ngroups_custom):
        while True:
            nm = rand_name(r, "G", 10)
            if nm.upper() not in used_names:
                break
        used_names.add(nm.upper())
        names.append(nm)
    if "sparse_ids" in chosen:
        style = r.choice(["sparse", "descending", "high"])
        if style == "sparse":
            ids = sorted(r.sample(range(1, 40), len(names)))
        elif style == "descending":
            ids = list(range(len(names), 0, -1))
        else:
            ids = sorted(r.sample(range(100, 128), len(names)))
            ids[0] = 127
            ids = sorted(set(ids))
            while len(ids) < len(names):
                ids.append(r.choice([i for i in range(1, 100) if i not in ids]))
        r.shuffle(ids) if style != "descending" else None
    else:
        ids = list(range(1, len(names) + 1))
        if r.random() < 0.3:
            r.shuffle(ids)
    groups = []
    for nm, gid in zip(names, ids):
        groups.append(dict(id=gid, name=nm, desc=rand_desc(r), locked=r.random() < 0.3))
    gid_of = {g["name"]: g["id"] for g in groups}
    # ---------------- POINT / ANALOG parameters
    params = []
    P, A = gid_of[b"POINT"], gid_of[b"ANALOG"]
    lv = "equal"
    if "labels_vs_points" in chosen and npts > 0:
        lv = r.choice(["fewer", "more", "none"])
    nlab = npts if lv == "equal" else (r.randint(0, npts - 1) if lv == "fewer" else (npts + r.randint(1, 5) if lv == "more" else 0))
    nlab = min(nlab, 255)
    plabels = []
    seen = set()
    for i in range(nlab):
        while True:
            nm = rand_name(r, "", r.choice([4, 8, 16, 30]), upper=False)
            if nm not in seen:
                break
        seen.add(nm)
        plabels.append(nm)
    wl = max([len(s) for s in plabels] + [0]) + r.choice([0, 0, 2, 5])
    wl = min(wl, 255)
    params.append(dict(gid=P, name=b"USED", type=2, dims=[], values=[npts], locked=True, desc=rand_desc(r, 30)))
    params.append(dict(gid=P, name=b"SCALE", type=4, dims=[], values=[fbits(-r.choice([1.0, 0.01, 0.1]))], locked=True))
    params.append(dict(gid=P, name=b"RATE", type=4, dims=[], values=[fbits(prate)], locked=True))
    if idx % 29 == 5:
        meta["variants"].append("no_point_data_start")      # the header word alone locates the data (readers follow it; the parameter is a copy)
    else:
        params.append(dict(gid=P, name=b"DATA_START", type=2, dims=[], values=[0], is_data_start=True, locked=True))
    params.append(dict(gid=P, name=b"FRAMES", type=2, dims=[], values=[nframes], locked=True))
    params.append(dict(gid=P, name=b"LABELS", type=-1, dims=[wl, nlab], values=plabels))
    params.append(dict(gid=P, name=b"DESCRIPTIONS", type=-1, dims=[r.choice([0, 8, 32]), nlab], values=[b""] * nlab))
    if params[-1]["dims"][0]:
        params[-1]["values"] = [bytes(r.choice(b"abc def") for _ in range(r.randint(0, params[-1]["dims"][0]))).rstrip(b" ") for _ in range(nlab)]
    params.append(dict(gid=P, name=b"UNITS", type=-1, dims=[4], values=[r.choice([b"mm", b"m", b"cm"])]))    # 1-D padded string (Vicon style)
    if minimal_analog:
        params.append(dict(gid=A, name=b"USED", type=2, dims=[], values=[0], locked=True))
        params.append(dict(gid=A, name=b"GEN_SCALE", type=4, dims=[], values=[fbits(1.0)]))
        params.append(dict(gid=A, name=b"RATE", type=4, dims=[], values=[fbits(arate)], locked=True))
    elif not empty_analog:
        alabels = []
        seen = set()
        alv = "equal" if "labels_vs_points" not in chosen or nch == 0 else r.choice(["equal", "fewer", "more"])
        nal = nch if alv == "equal" else (r.randint(0, nch - 1) if alv == "fewer" else nch + r.randint(1, 3))
        for i in range(nal):
            while True:
                nm = rand_name(r, "", r.choice([4, 8, 16]), upper=False)
                if nm not in seen:
                    break
            seen.add(nm)
            alabels.append(nm)
        wa = max([len(s) for s in alabels] + [0]) + r.choice([0, 3])
        params.append(dict(gid=A, name=b"USED", type=2, dims=[], values=[nch], locked=True))
        params.append(dict(gid=A, name=b"LABELS", type=-1, dims=[wa, nal], values=alabels))
        params.append(dict(gid=A, name=b"DESCRIPTIONS", type=-1, dims=[r.choice([0, 10]), nal], values=[b""] * nal))
        params.append(dict(gid=A, name=b"GEN_SCALE", type=4, dims=[], values=[fbits(1.0)]))
        params.append(dict(gid=A, name=b"SCALE", type=4, dims=[nch], values=[rand_float_bits(r, False) for _ in range(nch)]))
        params.append(dict(gid=A, name=b"OFFSET", type=2, dims=[nch], values=[r.randint(-2048, 2048) for _ in range(nch)]))
        params.append(dict(gid=A, name=b"UNITS", type=-1, dims=[4, nch], values=[r.choice([b"V", b"N", b"Nmm", b""]) for _ in range(nch)]))
        params.append(dict(gid=A, name=b"RATE", type=4, dims=[], values=[fbits(arate)], locked=True))
        if r.random() < 0.5:
            params.append(dict(gid=A, name=b"FORMAT", type=-1, dims=[8], values=[r.choice([b"SIGNED", b"UNSIGNED"])]))
            params.append(dict(gid=A, name=b"BITS", type=2, dims=[], values=[r.choice([12, 16])]))
    big_state = {}
    # custom parameters in every group
    for g in groups:
        if g["name"] == b"ANALOG" and empty_analog:
            continue
        taken = set(p["name"].upper() for p in params if p["gid"] == g["id"])
        for i in range(r.choice([0, 1, 2, 3, r.randint(0, 8)]) if g["name"] not in (b"POINT", b"ANALOG") else r.choice([0, 0, 1, 2])):
            while True:
                nm = rand_name(r, "Q", 14)
                if nm.upper() not in taken:
                    break
            taken.add(nm.upper())
            params.append(rand_custom_param(r, g["id"], nm, state=big_state))
    if idx % 11 == 4:
        # a parameter whose name EXTENDS a managed name, stored BEFORE it in its group (LABELS2 before LABELS, RATE_NOMINAL before RATE):
        # names are compared in full, the longer one is a different parameter
        extra = [dict(gid=P, name=b"LABELS2", type=-1, dims=[3, 2], values=[b"zzz", b"yy"]), dict(gid=P, name=b"RATE_NOMINAL", type=4, dims=[], values=[fbits(7.5)]),
                 dict(gid=P, name=b"USED_BEFORE", type=2, dims=[], values=[77])]
        if not empty_analog:
            extra += [dict(gid=A, name=b"RATE_NOMINAL", type=4, dims=[], values=[fbits(3.25)]), dict(gid=A, name=b"USED_BEFORE", type=2, dims=[], values=[99])]
        have = set((p["gid"], p["name"].upper()) for p in params)
        params[:0] = [e for e in extra if (e["gid"], e["name"]) not in have]
        meta["variants"].append("names_extending_managed_names_first")
    for p in params:
        p.setdefault("desc", b"")
        p.setdefault("locked", False)
    if L["order"] == "shuffle":
        keys = [["g", g["id"]] for g in groups] + [["p", p["gid"], p["name"]] for p in params]
        r.shuffle(keys)
        L["order"] = keys
    # ---------------- events
    ev = None
    if "events" in chosen:
        ne = r.randint(1, 18)
        times = [rand_float_bits(r) if i < ne else 0 for i in range(18)]
        disp = [r.choice([0, 1]) if i < ne else 0 for i in range(18)]
        labels = []
        for i in range(18):
            if i < ne:
                k = r.randint(1, 4)
                labels.append(bytes(r.choice(b"ABCDEFGHRLTO0123") for _ in range(k)) + b"\0" * (4 - k))
            else:
                labels.append(b"\0\0\0\0")
        ev = dict(n=ne, times=times, disp=disp, labels=labels)
    first = 1
    if "first_frame" in chosen:
        first = r.choice([2, 10, 100, 1000, 32767, 32768, 65000, r.randint(1, 65000)])
        if first + nframes - 1 > 65535:
            first = 65535 - nframes + 1
    # ---------------- data
    frames = []
    for f in range(nframes):
        pts = [tuple(rand_float_bits(r) for _ in range(4)) for _ in range(npts)]
        an = [[rand_float_bits(r) for _ in range(nch)] for _ in range(sub_hdr)]
        frames.append((pts, an))
    content = dict(npts=npts, nch=nch, sub=sub_hdr, first=first, nframes=nframes, rate_bits=fbits(prate), gap=r.choice([10, 0, 20]),
                   groups=groups, params=params, frames=frames, events=ev)
    meta["variants"] = sorted(chosen) + meta.get("variants", [])
    meta["shape"] = dict(npts=npts, nch=nch, sub=sub_hdr, nframes=nframes, groups=len(groups), params=len(params), first=first, labels=lv, ntsc=ntsc)
    meta["layout"] = {k: (v if not isinstance(v, list) else "explicit_shuffle") for k, v in L.items()}
    return content, L, meta


def selftest(n=300, seed=7):
    """decode(encode(x)) == x on a corpus; any failure here is a HARNESS failure, never a verdict."""
    bad = []
    for i in range(n):
        content, L, meta = gen_case(seed, i)
        b = c3dref.encode(content, L)
        d = c3dref.decode(b)
        if d["problems"]:
            bad.append((i, "problems", d["problems"][:3]))
            continue
        c = c3dref.content_of(d)
        want_groups = sorted((g["id"], g["name"], g.get("desc", b""), bool(g.get("locked"))) for g in content["groups"])
        if c["groups"] != want_groups:
            bad.append((i, "groups"))
        data_block = d["hdr"]["data_start"]
        wp = []
        for p in content["params"]:
            q = dict(p)
            if q.get("is_data_start"):
                q["values"] = [data_block]
            wp.append((q["gid"], q["name"], q["type"], tuple(q["dims"]), c3dref.param_raw(q), q.get("desc", b""), bool(q.get("locked"))))
        if c["params"] != sorted(wp):
            bad.append((i, "params"))
        if c["frames"] != [(list(map(tuple, pts)), [list(s) for s in an]) for pts, an in content["frames"]]:
            bad.append((i, "frames", len(c["frames"]), len(content["frames"])))
        if (c["npts"], c["nmeas"], c["sub"], c["first"], c["rate_bits"]) != (content["npts"], content["nch"] * content["sub"], content["sub"], content["first"], content["rate_bits"]):
            bad.append((i, "header"))
        if d["d_hdr"] != d["d_after"] or (d["d_par"] != d["d_after"] and not (d["d_par"] is None and "no_point_data_start" in meta.get("variants", []))):
            bad.append((i, "data pointers", d["d_hdr"], d["d_par"], d["d_after"]))
    return bad


if __name__ == "__main__":
    import sys
    bad = selftest(int(sys.argv[1]) if len(sys.argv) > 1 else 300)
    print("selftest failures:", bad[:10])
    sys.exit(1 if bad else 0)
