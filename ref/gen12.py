"""C12 corpus: exhaustive integer patterns and boundary-dense header words / float patterns, as reference-encoded files."""
import random
import struct

import gen


def base_content(npts=1, nch=1, sub=1, nframes=1, first=1, prate=100.0, gap=10, frames=None, events=None, extra_params=(), labels=True):
    arate = gen.f32(gen.f32(prate) * sub)
    groups = [dict(id=1, name=b"POINT", desc=b"", locked=False), dict(id=2, name=b"ANALOG", desc=b"", locked=False), dict(id=3, name=b"C12", desc=b"", locked=False)]
    nlab = min(npts, 255) if labels else 0
    plabels = [("P%03d" % i).encode() for i in range(nlab)]
    nal = min(nch, 255)
    alabels = [("A%03d" % i).encode() for i in range(nal)]
    params = [
        dict(gid=1, name=b"USED", type=2, dims=[], values=[npts if npts < 32768 else npts - 65536]),
        dict(gid=1, name=b"SCALE", type=4, dims=[], values=[gen.fbits(-1.0)]),
        dict(gid=1, name=b"RATE", type=4, dims=[], values=[gen.fbits(prate)]),
        dict(gid=1, name=b"DATA_START", type=2, dims=[], values=[0], is_data_start=True),
        dict(gid=1, name=b"FRAMES", type=2, dims=[], values=[nframes]),
        dict(gid=1, name=b"LABELS", type=-1, dims=[4, nlab], values=plabels),
        dict(gid=1, name=b"DESCRIPTIONS", type=-1, dims=[1, nlab], values=[b""] * nlab),
        dict(gid=1, name=b"UNITS", type=-1, dims=[2], values=[b"mm"]),
        dict(gid=2, name=b"USED", type=2, dims=[], values=[nch]),
        dict(gid=2, name=b"LABELS", type=-1, dims=[4, nal], values=alabels),
        dict(gid=2, name=b"DESCRIPTIONS", type=-1, dims=[1, nal], values=[b""] * nal),
        dict(gid=2, name=b"GEN_SCALE", type=4, dims=[], values=[gen.fbits(1.0)]),
        dict(gid=2, name=b"SCALE", type=4, dims=[nal], values=[gen.fbits(1.0)] * nal),
        dict(gid=2, name=b"OFFSET", type=2, dims=[nal], values=[0] * nal),
        dict(gid=2, name=b"UNITS", type=-1, dims=[1, nal], values=[b"V"] * nal),
        dict(gid=2, name=b"RATE", type=4, dims=[], values=[gen.fbits(arate)]),
    ] + list(extra_params)
    for p in params:
        p.setdefault("desc", b"")
        p.setdefault("locked", False)
    if frames is None:
        r = random.Random(npts * 7 + nch * 13 + sub)
        frames = [([tuple(gen.rand_float_bits(r, False) for _ in range(4)) for _ in range(npts)], [[gen.rand_float_bits(r, False) for _ in range(nch)] for _ in range(sub)]) for _ in range(nframes)]
    return dict(npts=npts, nch=nch, sub=sub, first=first, nframes=nframes, rate_bits=gen.fbits(prate), gap=gap, groups=groups, params=params, frames=frames, events=events)


def float_patterns(seed):
    r = random.Random(seed)
    pats = []
    for sign in (0, 1):
        for e in range(256):
            for m in (0, 1, 1 << 22, (1 << 23) - 1, r.getrandbits(23), r.getrandbits(23), r.getrandbits(23)):
                pats.append((sign << 31) | (e << 23) | m)
    return pats


def cases(seed):
    """Yield (name, content, layout, what) for the whole C12 set."""
    out = []
    # all 256 byte values (signed bytes in the file)
    bytevals = list(range(-128, 128))
    out.append(("bytes_all_256", base_content(extra_params=[dict(gid=3, name=b"BYTES", type=1, dims=[16, 16], values=bytevals)]), {}, "all 2^8 byte values"))
    # all 65536 int16 values over 4 parameters of 128x128
    allv = list(range(-32768, 32768))
    r = random.Random(seed)
    r.shuffle(allv)
    for k in range(4):
        out.append(("ints_part%d" % k, base_content(extra_params=[dict(gid=3, name=b"INTS", type=2, dims=[128, 128], values=allv[k * 16384:(k + 1) * 16384])]), {}, "16384 of the 2^16 integer values"))
    # header words, boundary dense
    B = [0, 1, 2, 127, 128, 255, 256, 257, 32767, 32768, 65534, 65535]
    for v in [0, 1, 2, 127, 128, 255, 256, 257, 32767]:
        out.append(("hdr_npts_%d" % v, base_content(npts=v, nch=1, sub=1, nframes=1), {}, "header point count %d" % v))
    for v in [0, 1, 2, 127, 128, 255, 256, 257, 32767]:
        out.append(("hdr_nch_%d" % v, base_content(npts=1, nch=v, sub=1, nframes=1), {}, "header analog count %d" % v))
    for v in [1, 2, 127, 128, 255, 256, 257, 32767, 32768, 65535]:
        out.append(("hdr_sub_%d" % v, base_content(npts=1, nch=1, sub=v, nframes=1, prate=1.0), {}, "header sub-frames %d" % v))
    for v in [x for x in B if x >= 1]:
        out.append(("hdr_first_%d" % v, base_content(first=v, nframes=1), {}, "first=last=%d" % v))
    for v in [1, 2, 127, 128, 255, 256, 257, 32767]:
        out.append(("hdr_frames_%d" % v, base_content(npts=1, nch=0, nframes=v), {}, "frames %d (last frame word)" % v))
    out.append(("hdr_last_65535", base_content(first=65535 - 9, nframes=10), {}, "last frame 65535"))
    for v in B:
        out.append(("hdr_gap_%d" % v, base_content(gap=v), {}, "interpolation gap %d" % v))
    for n in list(range(0, 19)):
        times = [gen.fbits(0.5 * i) for i in range(18)]
        labels = [("E%02d" % i).encode() + b"\0" for i in range(18)]
        disp = [(i + n) % 2 for i in range(18)]
        out.append(("hdr_events_%d" % n, base_content(events=dict(n=n, times=times, disp=disp, labels=labels)), {}, "event count %d" % n))
    for v in B:
        # display words are 9 16-bit words (two display bytes each): every boundary value in every word
        disp = list(struct.pack("<9H", *([v] * 9)))
        out.append(("hdr_disp_%d" % v, base_content(events=dict(n=3, times=[0] * 18, disp=disp, labels=[b"ABCD"] * 18)), {}, "display words %d" % v))
        out.append(("hdr_keywords_%d" % v, base_content(), dict(klp=v, fbk=(v * 7) & 0xFFFF, fcp=v ^ 0x3039), "key-label words %d" % v))
    # float patterns: placed in x/y/z/residual, analog samples, float parameters and event times
    pats = float_patterns(seed)
    per = 40
    for k in range(0, len(pats), per):
        chunk = pats[k:k + per]
        while len(chunk) < per:
            chunk.append(chunk[-1])
        # the SAME 40 patterns in every kind of float position: x/y/z/residual, analog samples, a float parameter; 18 of them as event times
        pts = [tuple(chunk[4 * i:4 * i + 4]) for i in range(10)]
        an = [chunk[8 * s:8 * s + 8] for s in range(5)]
        rot = ((k // per) * 18) % per
        times = [(chunk + chunk)[rot + i] for i in range(18)]
        ev = dict(n=18, times=times, disp=[0] * 18, labels=[b"F\0\0\0"] * 18)
        fp = dict(gid=3, name=b"FLOATS", type=4, dims=[8, 5], values=chunk)
        out.append(("floats_%04d" % (k // per), base_content(npts=10, nch=8, sub=5, nframes=1, frames=[(pts, an)], events=ev, extra_params=[fp]), {}, "40 float patterns in every float position"))
    # every special pattern alone, in every component of every point, every analog sample, the float parameter and the event times
    for k, pat in enumerate(gen.SPECIAL + [0x7fa00000, 0xff812345, 0x7f8fffff, 0xffbfffff]):
        chunk = [pat] * 40
        pts = [tuple(chunk[4 * i:4 * i + 4]) for i in range(10)]
        an = [chunk[8 * s:8 * s + 8] for s in range(5)]
        ev = dict(n=18, times=[pat] * 18, disp=[0] * 18, labels=[b"S\0\0\0"] * 18)
        fp = dict(gid=3, name=b"FLOATS", type=4, dims=[8, 5], values=chunk)
        out.append(("special_%02d_%08x" % (k, pat), base_content(npts=10, nch=8, sub=5, nframes=1, frames=[(pts, an)], events=ev, extra_params=[fp]), {}, "pattern %08x in every float position" % pat))
    return out
