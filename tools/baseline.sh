#!/bin/sh
# Rebuild the repository's own build (guard OFF) and run the pinned 19-test suite (18 gtests + the ctest wrapper).
set -e
cmake --build /repo/_build >/dev/null
cd /repo/_build
./runUnitTests 2>&1 | tail -3
ctest 2>&1 | tail -3
