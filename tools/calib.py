#!/usr/bin/env python3
"""Calibration: run checks against a scratch worktree of /repo carrying one change (a reverted fix or a patch).
   tools/calib.py --name N (--revert SHA | --patch FILE) --checks C01,C05 [--tier quick] [--seed S]
The worktree and its build output live under /tmp and are removed afterwards.  Prints one line per check: rc and violation keys."""
import argparse
import os
import re
import shutil
import subprocess
import sys

ap = argparse.ArgumentParser()
ap.add_argument("--name", required=True)
ap.add_argument("--revert")
ap.add_argument("--patch")
ap.add_argument("--checks", required=True)
ap.add_argument("--tier", default="quick")
ap.add_argument("--seed", default="1")
ap.add_argument("--demo", help="demonstration program: must fail on the changed tree and pass on the unchanged one")
ap.add_argument("--suite", action="store_true", help="also build the scratch tree with cmake and run the repository's gtest suite")
a = ap.parse_args()
wt = "/tmp/cal_%s" % a.name
br = "/tmp/calbuild_%s" % a.name
subprocess.run(["git", "-C", "/repo", "worktree", "remove", "--force", wt], stderr=subprocess.DEVNULL)
shutil.rmtree(wt, ignore_errors=True)
shutil.rmtree(br, ignore_errors=True)
subprocess.run(["git", "-C", "/repo", "worktree", "add", "--detach", wt, "HEAD"], check=True, stdout=subprocess.DEVNULL, stderr=subprocess.DEVNULL)
try:
    if a.revert:
        r = subprocess.run(["git", "-C", wt, "revert", "-n", a.revert], capture_output=True, text=True)
        if r.returncode:
            print("REVERT FAILED", r.stderr[-300:]); sys.exit(3)
    if a.patch:
        r = subprocess.run(["git", "-C", wt, "apply", os.path.abspath(a.patch)], capture_output=True, text=True)
        if r.returncode:
            print("PATCH FAILED", r.stderr[-300:]); sys.exit(3)
    if a.demo:
        flags = "-pthread" if "thread" in open(a.demo).read() else ""
        for label, tree in (("changed", wt), ("unchanged", "/repo")):
            exe = "/tmp/demo_%s_%s" % (a.name, label)
            r = subprocess.run("g++ -std=c++11 -O1 -w %s -I %s/include %s %s/src/*.cpp -o %s" % (flags, tree, a.demo, tree, exe), shell=True, capture_output=True, text=True)
            if r.returncode:
                print("DEMO %s: does not compile: %s" % (label, r.stderr[-200:]))
                continue
            try:
                r = subprocess.run([exe], capture_output=True, text=True, timeout=300, cwd=os.path.dirname(os.path.abspath(a.demo)))
                print("DEMO %s tree: exit %d %s" % (label, r.returncode, (r.stdout.strip().split("\n") or [""])[-1][:120]))
            except subprocess.TimeoutExpired:
                print("DEMO %s tree: timeout" % label)
            os.unlink(exe)
    if a.suite:
        subprocess.run("cp -r /repo/external/gtest/. %s/external/gtest/" % wt, shell=True)
        bd = wt + "/_b"
        r = subprocess.run("cmake -G Ninja -S %s -B %s -DBUILD_TESTS=ON -DCMAKE_BUILD_TYPE=RelWithDebInfo -DCMAKE_CXX_FLAGS=-w >/dev/null 2>&1 && cmake --build %s >/dev/null 2>&1 && cd %s && ./runUnitTests 2>&1 | tail -3" % (wt, bd, bd, bd), shell=True, capture_output=True, text=True)
        print("SUITE:", " ".join(r.stdout.split("\n")[-3:]).strip()[:200])
    env = dict(os.environ, VERIF_REPO=wt, VERIF_BUILD_ROOT=br, VERIF_SEED=a.seed, VERIF_OUT=br + "/out")
    for c in a.checks.split(","):
        p = subprocess.run(["/verif/check", c, a.tier], env=env, capture_output=True, text=True, cwd="/verif")
        keys = re.findall(r"^  key=(\S+) occurrences=(\d+)", p.stdout, re.M)
        known = len(re.findall(r"^KNOWN-FINDING", p.stdout, re.M))
        tail = p.stdout.strip().split("\n")[-1][:120]
        print("%-28s %s rc=%d new_keys=%d %s | %s" % (a.name, c, p.returncode, len(keys), ", ".join("%s(x%s)" % k for k in keys[:4]), tail if p.returncode not in (0, 1) else ""))
finally:
    subprocess.run(["git", "-C", "/repo", "worktree", "remove", "--force", wt], stderr=subprocess.DEVNULL)
    shutil.rmtree(wt, ignore_errors=True)
    shutil.rmtree(br, ignore_errors=True)
    subprocess.run(["git", "-C", "/repo", "worktree", "prune"], stderr=subprocess.DEVNULL)
    # a changed library runs as root inside the checks: make sure it did not damage what later runs rely on
    import stat
    for dev, minor in (("/dev/full", 7), ("/dev/null", 3), ("/dev/zero", 5)):
        try:
            ok = stat.S_ISCHR(os.stat(dev).st_mode)
        except OSError:
            ok = False
        if not ok:
            print("SANDBOX DAMAGE: %s is no longer a character device after %s; restoring" % (dev, a.name))
            subprocess.run("rm -f %s; mknod -m 666 %s c 1 %d" % (dev, dev, minor), shell=True)
    r = subprocess.run(["git", "-C", "/repo", "status", "--porcelain", "--untracked-files=no"], capture_output=True, text=True)
    if r.stdout.strip():
        print("SANDBOX DAMAGE: /repo working tree changed during the run:", r.stdout.strip()[:200])
