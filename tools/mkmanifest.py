#!/usr/bin/env python3
"""Regenerates /verif/MANIFEST.json from the table below."""
import json
import subprocess

fixes = subprocess.run(["git", "-C", "/repo", "log", "--format=%h %s"], capture_output=True, text=True).stdout.strip().split("\n")
hook_commits = [l.split()[0] for l in fixes if l.split(" ", 1)[1].startswith("verif:")][::-1]

T = {
 "C01": ("exploration", "adaptive API histories + save/load under ASan; snapshot-equality monitor", "§4 C01",
         "Seeded adaptive API histories (order of declarations, parameter edits of every type/shape, frame appends/replacements, lock toggles, intermediate reloads) each ending in save->load; the content snapshot before the save is compared bit for bit with the loaded object (names upper-cased, strings right-trimmed, layout pointers excluded). Held-on-N-executions evidence, not a proof; sizes are sampled with boundary sizes forced."),
 "C02": ("exploration", "independent spec-level encoder corpus -> library load vs independent decoder of the same bytes", "§4 C02",
         "Every file comes from a reference encoder written from the C3D specification (layout variants alone and combined x content shapes) or is a vendor file; the loaded snapshot is compared field by field with the independent pointer-following decoder."),
 "C03": ("exploration", "saved bytes decoded by a pointer-following reference decoder; exhaustive 512-residue sweep", "§4 C03",
         "Every saved file (API-built, load-then-edit, gap frames) is checked on the bytes only: pointers, next-offsets, terminator, padding, block count, header/parameter agreement, data length, names, lock flags, content == memory; the parameter-section length is stepped through all 512 residues mod 512 for fresh and loaded objects (exhaustive for that sub-space)."),
 "C04": ("exploration", "load->save->load(->save) generations over the encoder corpus; content and byte comparison", "§4 C04",
         "Generation 1 vs later generations on content, successive saved files byte for byte, file 2 decoded independently and compared with generation 2."),
 "C05": ("exploration", "online invariant monitor after every successful call of adaptive histories", "§4 C05",
         "The three views (header, POINT/ANALOG parameters, stored frames) are compared after every successful call of disciplined histories, including reloads; label arrays checked when points/channels are declared by name."),
 "C06": ("exploration", "relational monitor on consecutive snapshots for frame and column calls", "§4 C06",
         "Count, target content (against the INTENDED values the caller set), bit-exact equality of every other frame, emptiness of in-between frames, exactly-one-column for column adders."),
 "C07": ("exploration", "precondition predicate monitor: allowed-outcome set from pre-state and arguments", "§4 C07",
         "For every frame/column call the documented predicate is evaluated on the pre-call snapshot and the submitted content: a listed defect must be refused with the documented class, a matching frame/column must be accepted; undocumented shapes are counted as unspecified, never judged."),
 "C08": ("exploration", "caller-side mutation after hand-over / repeated hand-over; snapshot equality", "§4 C08",
         "Histories that reuse, mutate and re-submit caller-side frames; the object's snapshot must not move, columns are added exactly once."),
 "C09": ("exploration", "parameter-tree diff monitor + set() consistency predicate", "§4 C09",
         "Tree diff of consecutive snapshots against the given parameter (type, dims, values, description, lock), position rules, other groups/parameters untouched, set(values, dims) accepted iff consistent else range_error and unchanged, lock/unlock flips only the flag."),
 "C10": ("exploration", "full snapshot equality around every throwing public mutator (disciplined and wild histories)", "§4 C10",
         "Every refused call (>= 8 kinds, >= 200 per run) must leave header, parameter tree and frames identical; histories end with save+reload."),
 "C11": ("exploration", "access sweep compared with the snapshot: element at position / first exact name / documented exception class", "§4 C11",
         "Index set {in range, size, size+1, 2^32, 2^64-1} and name variants (exact, case variant, blank padded, absent, empty) over every container kind; typed getters; trailing-space declaration stored under the trimmed name."),
 "C12": ("exploration", "exhaustive byte/int16 value files and boundary-dense header/float pattern files, both directions", "§4 C12",
         "All 2^8 byte and 2^16 int values (file->memory->file and API->file->memory), boundary values of every header word, 3584 float patterns in every float position; exact value and byte equality. Exhaustive for the integer sub-spaces only."),
 "C13": ("exploration", "ASan + memory-class UBSan + libstdc++ assertions, one process per case, on a slice of every workload; memcheck sample", "§4 C13",
         "No sanitizer report, assertion or signal on disciplined/wild histories, load-then-edit, corpus load+print+re-save, generations, residue objects; plus valgrind memcheck on the uninstrumented build. A clean run is evidence about these executions, not memory safety."),
 "C14": ("exploration", "cross-process byte differential under heap perturbation + valgrind definedness at write(2) + online purity monitors", "§4 C14",
         "Same objects saved in 4 fresh processes (ASan fill, MALLOC_PERTURB_ 0x00/0x55/0xaa) must be byte-identical; memcheck with origin tracking flags any uninitialised byte reaching write(2); snapshot equality around every save; two saves byte-identical."),
 "C15": ("fault_enumeration", "RLIMIT_FSIZE at every byte offset, /dev/full, unopenable and read-only destinations, strace ENOSPC cross-check", "§4 C15",
         "Real kernel faults: the write limit is stepped through every offset of four small objects (exhaustive) and a stride of two large ones; threw ios_base::failure <=> incomplete, returned => byte-identical to the fault-free save; limits >= size must not be refused."),
 "C16": ("fault_enumeration", "truncation / byte overwrite / structure-aware damage under ASan with logical step budgets", "§4 C16",
         "Every truncation length and every single-byte boundary overwrite of header+parameter bytes of small seeds, boundary values in every structural field, field pairs; outcome must be an object or a std::exception within read/allocation budgets counted in steps (hook), never seconds."),
 "C17": ("exploration", "enumerated boundary table L-1, L, L+1, far beyond per capacity limit, alone and in pairs", "§4 C17",
         "At or below a limit: save succeeds and reload equals; beyond: save throws or reload equals. Limits only reachable through files use reference-encoded inputs."),
 "C18": ("exploration", "ThreadSanitizer + hook-perturbed schedules + digest comparison with a solo run", "§4 C18",
         "T in {2,4,8,16} threads per round on independent objects and shared input files; any TSan report or a digest differing from the solo run is a violation; evidence lists overlapping section pairs and distinct interleaving signatures."),
 "C19": ("exploration", "differential execution across the 8 CMake configurations (thorough: + clang++)", "§4 C19",
         "Identical filtered event logs, snapshots and SHA-256 of saved files for the same seeded histories, corpus files and pattern files across Debug/Release/RelWithDebInfo/MinSizeRel x shared/static."),
}

notes = {
 "C15": "Trusted base: Linux RLIMIT_FSIZE / /dev/full semantics; failures visible only at fsync are outside the statement.",
 "C16": "Budgets are explicit constants on logical steps (reads <= 256+4*size, reads after stream failure <= 1024, bytes allocated <= 8MiB+400*size).",
 "C18": "Trusted base: ThreadSanitizer's happens-before analysis for intercepted synchronisation; finite number of perturbed schedules.",
 "C19": "Only configurations buildable in this sandbox (g++ 12 / clang++ 14 on x86-64).",
}
default_note = "Trusted base: the driver's snapshot (const public accessors only), the monitor code in /verif/driver and /verif/lib, g++ 12 sanitizer runtimes; for file oracles the reference codec /verif/ref/c3dref.py (self-tested on every run, agrees with the three vendor files). Verdict = held on the executions produced; known findings are listed in known_findings.json."

checks = []
for pid in sorted(T):
    lvl, tech, ref, text = T[pid]
    checks.append({
        "property_id": pid,
        "quick_cmd": "./check %s quick" % pid,
        "thorough_cmd": "./check %s thorough" % pid,
        "evidence_file": "/verif/evidence/%s.json" % pid,
        "replay_cmd_template": "./check %s --replay {path}" % pid,
        "engine": "runtime-monitoring",
        "level_claimed": {"category": lvl, "text": text, "design_ref": "DESIGN.md " + ref},
        "level_note": notes.get(pid, default_note),
        "technique": tech,
    })

m = {
 "version": 1,
 "setup_cmd": "python3 -m py_compile lib/*.py ref/*.py && python3 ref/gen.py 150 && python3 lib/build.py asan plain tsan",
 "hooks": {
  "guard": "MELUND_EZC3D_VERIF",
  "enable": "-DMELUND_EZC3D_VERIF on every compile of /repo/src/*.cpp done by the checks (lib/build.py); the driver defines the weak symbol melund_ezc3d_verif_hook",
  "baseline_off_cmd": "cmake --build /repo/_build && cd /repo/_build && ./runUnitTests && ctest",
  "source_commits": hook_commits,
  "add_only": True,
 },
 "engines": [{"name": "runtime-monitoring", "path": "/verif/check", "serves_properties": sorted(T),
              "kind_free_text": "C++ workload driver linked against the library built from /repo's working tree under ASan/UBSan/TSan/plain/CMake configurations, fork-per-case isolation, online relational monitors, Python oracles with an independent C3D reference codec, OS-level fault injection, valgrind memcheck"}],
 "checks": checks,
 "not_applicable": [],
 "notes": "Exit codes: 0 held (KNOWN-FINDING lines allowed), 1 VIOLATION, 2 harness failure or inconclusive. VERIF_SEED seeds every random choice. Known findings: /verif/known_findings.json; repairs of genuine defects are 'fix:' commits in /repo and listed there as fixed entries.",
}
json.dump(m, open("/verif/MANIFEST.json", "w"), indent=1)
print("manifest written:", len(checks), "checks; hook commits", hook_commits)
