#!/bin/sh
# run every check of a tier, print one summary line per property; validates every evidence file
tier=${1:-quick}
cd /verif
for p in C01 C02 C03 C04 C05 C06 C07 C08 C09 C10 C11 C12 C13 C14 C15 C16 C17 C18 C19; do
  s=$(date +%s); ./check $p $tier > /tmp/runall_$p.log 2>&1; rc=$?; e=$(date +%s)
  echo "$p rc=$rc $((e-s))s $(grep -c '^VIOLATION' /tmp/runall_$p.log) violations, $(grep -c '^KNOWN-FINDING' /tmp/runall_$p.log) known; $(tail -1 /tmp/runall_$p.log | cut -c1-140)"
done
python3-vt - <<'PY'
import json, jsonschema, glob
sch=json.load(open('/root/.vp/EVIDENCE.schema.json'))
for f in sorted(glob.glob('/verif/evidence/*.json')):
    try: jsonschema.validate(json.load(open(f)), sch)
    except Exception as e: print('EVIDENCE INVALID', f, str(e)[:200])
print('evidence validated')
PY
