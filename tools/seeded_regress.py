#!/usr/bin/env python3
"""Run every seeded mutant under /verif/seeded against the check of its property (quick tier) and write seeded/RESULTS.md.
   tools/seeded_regress.py [-j 4] [ids...]"""
import json
import os
import re
import subprocess
import sys
from concurrent.futures import ThreadPoolExecutor

j = 4
ids = []
a = sys.argv[1:]
while a:
    x = a.pop(0)
    if x == "-j":
        j = int(a.pop(0))
    else:
        ids.append(x)
root = "/verif/seeded"
allids = sorted(d for d in os.listdir(root) if os.path.isdir(os.path.join(root, d)) and not json.load(open(os.path.join(root, d, "meta.json"))).get("obsolete_after"))
ids = ids or allids


def one(i):
    meta = json.load(open(os.path.join(root, i, "meta.json")))
    checks = meta.get("checks", meta["property"])
    p = subprocess.run(["/verif/tools/calib.py", "--name", "sr_" + i, "--patch", os.path.join(root, i, "patch.diff"), "--checks", checks],
                       capture_output=True, text=True)
    rows = []
    for line in p.stdout.split("\n"):
        m = re.match(r"\S+\s+(C\d+) rc=(\d+) new_keys=(\d+) (.*?) \|", line)
        if m:
            rows.append((m.group(1), int(m.group(2)), int(m.group(3)), m.group(4)[:160]))
    return i, rows, p.stdout[-300:] if not rows else ""


with ThreadPoolExecutor(j) as ex:
    res = list(ex.map(one, ids))
lines = ["# Seeded mutants vs. quick checks (tools/seeded_regress.py)", "", "| mutant | check | exit | new keys | first keys |", "|---|---|---|---|---|"]
missed = []
for i, rows, err in res:
    if not rows:
        lines.append("| %s | ? | ? | ? | %s |" % (i, err.replace("\n", " ")[:120]))
        missed.append(i)
    for c, rc, nk, keys in rows:
        lines.append("| %s | %s | %d | %d | %s |" % (i, c, rc, nk, keys.replace("|", "/")))
    if rows and not any(rc == 1 for c, rc, nk, keys in rows):
        missed.append(i)
lines += ["", "not detected: %s" % (missed or "none")]
if ids == allids:
    open(os.path.join(root, "RESULTS.md"), "w").write("\n".join(lines) + "\n")
print("\n".join(lines[-3:]))
print("detected %d of %d" % (len(res) - len(set(m.split(":")[0] for m in missed)), len(res)))
