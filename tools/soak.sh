#!/bin/sh
# soak: every quick check over several seeds; prints only non-zero exits.  SOAK_SEEDS="51 52 ..." tools/soak.sh
cd "$(dirname "$0")/.."
for s in ${SOAK_SEEDS:-51 52 53 54 55 56}; do for p in C01 C02 C03 C04 C05 C06 C07 C08 C09 C10 C11 C12 C13 C14 C15 C16 C17 C18 C19; do
  VERIF_SEED=$s ./check $p quick > /tmp/vpsoak_${p}_$s.log 2>&1; rc=$?; [ $rc -ne 0 ] && echo "seed=$s $p rc=$rc $(grep '^  key=\|INCONC\|HARNESS' /tmp/vpsoak_${p}_$s.log | head -3 | cut -c1-220 | tr '\n' ' ')"
done; echo "seed $s done $(date +%H:%M)"; done
